//! Seeded input generation on the model side.

use crate::{dg::Dg, rng::Rng};
use std::collections::BTreeSet;

/// Arc probability in 1/1000, drawn from a mixture so that empty, sparse,
/// medium, dense and complete digraphs all occur.
pub fn draw_density(rng: &mut Rng) -> usize {
    match rng.below(10) {
        0 => 0,
        1 => 1000,
        2 | 3 => rng.range(10, 150),
        4 | 5 | 6 => rng.range(150, 600),
        7 | 8 => rng.range(600, 950),
        _ => rng.range(950, 999),
    }
}

pub fn random_dg_on(rng: &mut Rng, verts: &BTreeSet<usize>, density: usize) -> Dg {
    let mut d = Dg { v: verts.clone(), a: BTreeSet::new() };
    for &u in verts {
        for &w in verts {
            if u != w && rng.below(1000) < density {
                let _ = d.a.insert((u, w));
            }
        }
    }
    d
}

pub fn random_dg(rng: &mut Rng, order: usize, density: usize) -> Dg {
    let verts: BTreeSet<usize> = (0..order).collect();
    random_dg_on(rng, &verts, density)
}

pub fn random_tournament(rng: &mut Rng, order: usize) -> Dg {
    let mut d = Dg::empty(order);
    for u in 0..order {
        for w in (u + 1)..order {
            if rng.chance(1, 2) {
                let _ = d.a.insert((u, w));
            } else {
                let _ = d.a.insert((w, u));
            }
        }
    }
    d
}

/// A digraph around the semicomplete / tournament boundary: a tournament,
/// optionally with extra reverse arcs, optionally with 0..=2 unordered pairs
/// emptied. With `keep_size` the arc count is kept at or above n(n-1)/2 (by
/// doubling other pairs) so that size shortcuts do not decide the answer.
pub fn near_semicomplete(rng: &mut Rng, order: usize, keep_size: bool) -> Dg {
    let mut d = random_tournament(rng, order);
    if order < 2 {
        return d;
    }
    let extra = match rng.below(4) {
        0 => 0,
        1 => rng.range(0, 2),
        2 => rng.range(0, order),
        _ => rng.range(0, order * (order - 1) / 2),
    };
    let pairs: Vec<(usize, usize)> =
        (0..order).flat_map(|u| ((u + 1)..order).map(move |w| (u, w))).collect();
    for _ in 0..extra {
        let &(u, w) = rng.pick(&pairs);
        let _ = d.a.insert((u, w));
        let _ = d.a.insert((w, u));
    }
    let knock = match rng.below(5) {
        0 | 1 => 0,
        2 | 3 => 1,
        _ => 2,
    };
    // pairs at "structured" distances (word sizes, powers of two and their neighbours): where block-wise
    // implementations treat cells differently
    // (one distance per digraph: a block-wise implementation that mistreats a residue class mistreats
    // all of its pairs)
    let ds: Vec<usize> =
        [1usize, 2, 7, 8, 16, 31, 32, 33, 63, 64, 65, 127, 128, 192].iter().copied().filter(|&d| d < order).collect();
    let the_d = *rng.pick(&ds);
    let structured = |rng: &mut Rng| -> (usize, usize) {
        let d = if rng.chance(3, 4) { the_d } else { *rng.pick(&ds) };
        let u = rng.below(order - d);
        (u, u + d)
    };
    let use_structured = rng.chance(1, 3);
    for _ in 0..knock {
        // bias the emptied pair towards the first / last rows and columns
        let (u, w) = if use_structured {
            structured(rng)
        } else {
            match rng.below(4) {
                0 => pairs[0],
                1 => pairs[pairs.len() - 1],
                _ => *rng.pick(&pairs),
            }
        };
        let removed = usize::from(d.a.remove(&(u, w))) + usize::from(d.a.remove(&(w, u)));
        if keep_size {
            // re-add as many arcs elsewhere (doubling pairs) so that size does not drop
            let mut need = removed;
            let mut guard = 0;
            while need > 0 && guard < 10 * pairs.len() {
                guard += 1;
                let (x, y) = if use_structured && guard < 50 { structured(rng) } else { *rng.pick(&pairs) };
                if (x, y) == (u, w) {
                    continue;
                }
                if d.a.contains(&(x, y)) != d.a.contains(&(y, x)) {
                    let _ = d.a.insert((x, y));
                    let _ = d.a.insert((y, x));
                    need -= 1;
                }
            }
        }
    }
    d
}

/// A tournament in which `k` pairs at distance `d` were emptied and `k` other pairs at the same distance
/// doubled: the arc count is still n(n-1)/2 (so a size shortcut cannot decide) and every defect lies in
/// one residue class of the column index - the blind spot of a block-wise scan that masks a class.
pub fn tournament_with_paired_defects(rng: &mut Rng, order: usize, d: usize, k: usize) -> Dg {
    let mut g = random_tournament(rng, order);
    if d == 0 || d >= order {
        return g;
    }
    let mut used = BTreeSet::new();
    for i in 0..2 * k {
        let mut u = rng.below(order - d);
        let mut guard = 0;
        while used.contains(&u) && guard < 64 {
            u = rng.below(order - d);
            guard += 1;
        }
        let _ = used.insert(u);
        let (a, b) = (u, u + d);
        if i % 2 == 0 {
            let _ = g.a.remove(&(a, b));
            let _ = g.a.remove(&(b, a));
        } else {
            let _ = g.a.insert((a, b));
            let _ = g.a.insert((b, a));
        }
    }
    g
}

/// A tournament with one emptied and one doubled pair, both in row `r` (pairs {r, v1}, {r, v2}): the arc
/// count is still n(n-1)/2 and every defect sits in a single row - the blind spot of a scan that skips
/// or double-assigns one row (the middle one of an odd order, the first, the last). With `above` both
/// partners are larger than `r` when possible, so only row `r` itself can see the defects in an
/// upper-triangle scan.
pub fn tournament_with_row_defects(rng: &mut Rng, order: usize, r: usize, above: bool) -> Dg {
    let mut g = random_tournament(rng, order);
    if order < 3 || r >= order {
        return g;
    }
    let pool: Vec<usize> = if above && r + 2 < order { (r + 1..order).collect() } else { (0..order).filter(|&v| v != r).collect() };
    let v1 = pool[rng.below(pool.len())];
    let mut v2 = pool[rng.below(pool.len())];
    if v2 == v1 {
        v2 = *pool.iter().find(|&&v| v != v1).unwrap();
    }
    let _ = g.a.remove(&(r, v1));
    let _ = g.a.remove(&(v1, r));
    let _ = g.a.insert((r, v2));
    let _ = g.a.insert((v2, r));
    g
}

/// A dense digraph of `order` vertices at the semicomplete boundary, a pure function of (order, seed):
/// complete, complete minus one or a few vertex pairs, a tournament, or a tournament with one emptied and
/// one doubled pair. Every variant has at least n(n-1)/2 arcs, so a size shortcut decides nothing; the
/// emptied pairs sit in structured rows (first, last, middle, the one before a 1024 boundary).
pub fn dense_boundary(order: usize, seed: u64) -> Dg {
    let mut rng = Rng::new(crate::rng::mix(&[seed, order as u64, 0xD3B5]));
    let n = order;
    let row = |rng: &mut Rng| -> usize {
        match rng.below(6) {
            0 => 0,
            1 => n.saturating_sub(2),
            2 => (n - 1) / 2,
            3 => 1023.min(n.saturating_sub(2)),
            _ => rng.below(n.max(2) - 1),
        }
    };
    match rng.below(6) {
        0 => Dg::complete(n),
        1 => random_tournament(&mut rng, n),
        2 => {
            let r = row(&mut rng);
            let above = rng.chance(1, 2);
            tournament_with_row_defects(&mut rng, n, r, above)
        }
        k => {
            let mut g = Dg::complete(n);
            if n >= 2 {
                for _ in 0..(if k == 3 { 1 } else { rng.range(2, 3) }) {
                    let u = row(&mut rng);
                    let w = rng.range(u + 1, n - 1);
                    let _ = g.a.remove(&(u, w));
                    let _ = g.a.remove(&(w, u));
                }
            }
            g
        }
    }
}

/// `k` distinct vertex ids. Styles: contiguous 0..k; contiguous with holes;
/// sparse ids from a wide range; shifted block (no vertex 0).
pub fn random_vertex_set(rng: &mut Rng, k: usize, max_id: usize) -> BTreeSet<usize> {
    assert!(k >= 1, "vertex set must be non-empty");
    match rng.below(9) {
        8 => {
            // huge ids: nothing may be sized or indexed by a vertex id
            let mut s = BTreeSet::new();
            while s.len() < k {
                let _ = s.insert(match rng.below(3) {
                    0 => (1usize << 40) + rng.below(50),
                    1 => usize::MAX - rng.below(50),
                    _ => rng.below(max_id.max(k + 1)),
                });
            }
            s
        }
        0 | 4 => (0..k).collect(),
        1 | 5 => {
            // 0..k+h with h holes
            let h = rng.range(1, 3);
            let mut ids: Vec<usize> = (0..k + h).collect();
            rng.shuffle(&mut ids);
            ids.truncate(k);
            ids.into_iter().collect()
        }
        2 | 6 => {
            let mut s = BTreeSet::new();
            let hi = max_id.max(k + 1);
            while s.len() < k {
                let _ = s.insert(rng.below(hi));
            }
            s
        }
        _ => {
            let off = rng.range(1, max_id.max(2));
            (off..off + k).collect()
        }
    }
}

/// What the simulated `available_parallelism()` answers: `Some(n)` or `None`
/// for an injected error.
pub type Cpu = Option<usize>;

/// Thread counts biased around `rows` (rows-1, rows, rows+1, ceil(rows/2))
/// and the listed fixed values.
pub fn draw_cpu(rng: &mut Rng, rows: usize) -> Cpu {
    match rng.below(12) {
        0 => None,
        1 => Some(1),
        2 => Some(rows.max(2) - 1),
        3 => Some(rows.max(1)),
        4 => Some(rows + 1),
        5 => Some(rows.div_ceil(2).max(1)),
        6 => Some(*rng.pick(&[17, 31, 32, 33, 64, 64, 128, 255, 1024])),
        7 => Some(16),
        _ => Some(rng.range(1, 16)),
    }
}

/// Fixed corpus for the seam-fidelity self-test: (kind, D, E) with kinds
/// complement | complete | degree_sequence | is_semicomplete | list_union | map_union.
pub fn fidelity_corpus() -> Vec<(&'static str, Dg, Dg)> {
    let mut rng = Rng::new(0xF1DE_117);
    let mut out = Vec::new();
    for &n in &[1usize, 2, 3, 5, 7, 8, 9, 15, 16, 17, 23, 31, 32, 33, 40] {
        let p = draw_density(&mut rng);
        let d = random_dg(&mut rng, n, p);
        let m = rng.range(1, n + 3);
        let q = draw_density(&mut rng);
        let e = random_dg(&mut rng, m, q);
        out.push(("complement", d.clone(), e.clone()));
        out.push(("complete", d.clone(), e.clone()));
        out.push(("degree_sequence", d.clone(), e.clone()));
        out.push(("is_semicomplete", near_semicomplete(&mut rng, n, true), e.clone()));
        out.push(("list_union", d.clone(), e.clone()));
        let vs = random_vertex_set(&mut rng, m, 60);
        let f = random_dg_on(&mut rng, &vs, q.min(600));
        out.push(("map_union", d, f));
    }
    out
}

/// One line of the fidelity listing: the observed result, canonically.
pub fn fidelity_line(kind: &str, i: usize, verts: &[usize], arcs: &[(usize, usize)], seq: &[usize], flag: bool, model_ok: bool) -> String {
    let d = crate::rng::digest_words(
        verts
            .iter()
            .map(|&x| x as u64)
            .chain(std::iter::once(u64::MAX))
            .chain(arcs.iter().flat_map(|&(u, v)| [u as u64, v as u64]))
            .chain(std::iter::once(u64::MAX))
            .chain(seq.iter().map(|&x| x as u64))
            .chain(std::iter::once(u64::from(flag))),
    );
    format!("{i} {kind} {d:016x} {}", if model_ok { "model-ok" } else { "MODEL-MISMATCH" })
}

// ---------------------------------------------------------------- boundary seeds

fn inv_mul(c: u64) -> u64 {
    // modular inverse of an odd constant mod 2^64 (Newton iteration)
    let mut x = c;
    for _ in 0..6 {
        x = x.wrapping_mul(2u64.wrapping_sub(c.wrapping_mul(x)));
    }
    x
}

fn un_xorshift(y: u64, s: u32) -> u64 {
    let mut x = y;
    let mut shift = s;
    while shift < 64 {
        x = y ^ (x >> s);
        shift += s;
    }
    x
}

/// A seed for which the first `next_f64()` of a xoshiro256** generator that is
/// seeded through SplitMix64 (the published algorithms, which graaf's
/// `Xoshiro256StarStar::new` follows) is exactly `0.0`: the low 52 bits of the
/// first output are zero, the high 12 bits are `k`. A boundary value of the
/// seed space ("for every seed"); the lanes verify it against graaf's public
/// PRNG before relying on it.
pub fn seed_with_first_draw_zero(k: u64) -> u64 {
    seed_with_first_draw(0, k)
}

/// The same inversion for any value of the 52 mantissa bits of the first draw: `low52 = 2^52 - 1` is
/// the *largest* value `next_f64()` can take (1 - 2^-52), `2^51` is exactly 0.5.
pub fn seed_with_first_draw(low52: u64, k: u64) -> u64 {
    seed_with_first_output(((k & 0xFFF) << 52) | (low52 & ((1 << 52) - 1)))
}

/// ... and for any value of the whole first 64-bit output word (`next()`): 0, 1, 2, u64::MAX, ... are the
/// boundary values of everything that reduces a raw draw (`draw % u`, `draw & 1`, a multiply-shift).
pub fn seed_with_first_output(out: u64) -> u64 {
    // xoshiro256**: out = rotl(s1 * 5, 7) * 9, s1 = second SplitMix64 output
    let s1 = out.wrapping_mul(inv_mul(9)).rotate_right(7).wrapping_mul(inv_mul(5));
    // SplitMix64 output function inverted
    let mut s = un_xorshift(s1, 31);
    s = s.wrapping_mul(inv_mul(0x94D0_49BB_1331_11EB));
    s = un_xorshift(s, 27);
    s = s.wrapping_mul(inv_mul(0xBF58_476D_1CE4_E5B9));
    let state = un_xorshift(s, 30);
    state.wrapping_sub(0x9E37_79B9_7F4A_7C15u64.wrapping_mul(2))
}
