//! Shared by both engines: PRNG, reference model, input generation.
pub mod dg;
pub mod gen;
pub mod rng;
