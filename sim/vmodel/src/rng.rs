//! The simulator's own PRNG (splitmix64 seeding + xoshiro256++). Deliberately
//! not graaf's generator, so the oracle shares no code with the subject.

pub fn splitmix64(state: &mut u64) -> u64 {
    *state = state.wrapping_add(0x9E37_79B9_7F4A_7C15);
    let mut z = *state;
    z = (z ^ (z >> 30)).wrapping_mul(0xBF58_476D_1CE4_E5B9);
    z = (z ^ (z >> 27)).wrapping_mul(0x94D0_49BB_1331_11EB);
    z ^ (z >> 31)
}

/// Order-sensitive combination of several words into one seed.
pub fn mix(parts: &[u64]) -> u64 {
    let mut s = 0x243F_6A88_85A3_08D3_u64;
    for &p in parts {
        let mut t = s ^ p.wrapping_mul(0xD6E8_FEB8_6659_FD93);
        s = splitmix64(&mut t).rotate_left(17) ^ p;
    }
    let mut t = s;
    splitmix64(&mut t)
}

/// 64-bit digest of a byte string (FNV-1a + splitmix finaliser); used only to
/// count distinct cases / schedules.
pub fn digest(bytes: &[u8]) -> u64 {
    let mut h = 0xcbf2_9ce4_8422_2325_u64;
    for &b in bytes {
        h ^= u64::from(b);
        h = h.wrapping_mul(0x0000_0100_0000_01B3);
    }
    let mut t = h;
    splitmix64(&mut t)
}

pub fn digest_words(words: impl IntoIterator<Item = u64>) -> u64 {
    let mut h = 0xcbf2_9ce4_8422_2325_u64;
    for w in words {
        for b in w.to_le_bytes() {
            h ^= u64::from(b);
            h = h.wrapping_mul(0x0000_0100_0000_01B3);
        }
    }
    let mut t = h;
    splitmix64(&mut t)
}

#[derive(Clone, Debug)]
pub struct Rng {
    s: [u64; 4],
}

impl Rng {
    pub fn new(seed: u64) -> Self {
        let mut st = seed;
        let s = [
            splitmix64(&mut st),
            splitmix64(&mut st),
            splitmix64(&mut st),
            splitmix64(&mut st),
        ];
        Self { s }
    }

    pub fn next_u64(&mut self) -> u64 {
        let r = self.s[0]
            .wrapping_add(self.s[3])
            .rotate_left(23)
            .wrapping_add(self.s[0]);
        let t = self.s[1] << 17;
        self.s[2] ^= self.s[0];
        self.s[3] ^= self.s[1];
        self.s[1] ^= self.s[2];
        self.s[0] ^= self.s[3];
        self.s[2] ^= t;
        self.s[3] = self.s[3].rotate_left(45);
        r
    }

    /// Uniform in `0..n` (`n > 0`).
    pub fn below(&mut self, n: usize) -> usize {
        assert!(n > 0, "below(0)");
        // multiply-shift; bias is irrelevant at these sizes
        ((u128::from(self.next_u64()) * (n as u128)) >> 64) as usize
    }

    /// Uniform in `lo..=hi`.
    pub fn range(&mut self, lo: usize, hi: usize) -> usize {
        assert!(lo <= hi, "range({lo},{hi})");
        lo + self.below(hi - lo + 1)
    }

    /// True with probability `num/den`.
    pub fn chance(&mut self, num: usize, den: usize) -> bool {
        self.below(den) < num
    }

    pub fn f64(&mut self) -> f64 {
        (self.next_u64() >> 11) as f64 / (1u64 << 53) as f64
    }

    pub fn pick<'a, T>(&mut self, xs: &'a [T]) -> &'a T {
        &xs[self.below(xs.len())]
    }

    pub fn shuffle<T>(&mut self, xs: &mut [T]) {
        for i in (1..xs.len()).rev() {
            let j = self.below(i + 1);
            xs.swap(i, j);
        }
    }

    pub fn fork(&mut self) -> Rng {
        Rng::new(self.next_u64())
    }
}
