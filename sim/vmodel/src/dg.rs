//! Reference model: a digraph is a vertex set and an arc set; every operation
//! is written as its set definition. No chunking, no threads, no unsafe, no
//! code shared with graaf.

use serde::{Deserialize, Serialize};
use std::collections::{BTreeMap, BTreeSet};

#[derive(Clone, Debug, Default, PartialEq, Eq, PartialOrd, Ord, Hash, Serialize, Deserialize)]
pub struct Dg {
    pub v: BTreeSet<usize>,
    pub a: BTreeSet<(usize, usize)>,
}

impl Dg {
    /// Vertex set `0..order`, no arcs.
    pub fn empty(order: usize) -> Self {
        Self { v: (0..order).collect(), a: BTreeSet::new() }
    }

    pub fn from_arcs(order: usize, arcs: impl IntoIterator<Item = (usize, usize)>) -> Self {
        Self { v: (0..order).collect(), a: arcs.into_iter().collect() }
    }

    pub fn from_parts(
        v: impl IntoIterator<Item = usize>,
        a: impl IntoIterator<Item = (usize, usize)>,
    ) -> Self {
        Self { v: v.into_iter().collect(), a: a.into_iter().collect() }
    }

    pub fn order(&self) -> usize {
        self.v.len()
    }

    pub fn size(&self) -> usize {
        self.a.len()
    }

    pub fn is_contiguous(&self) -> bool {
        self.v.iter().copied().eq(0..self.v.len())
    }

    /// No self-loop, every endpoint is a vertex.
    pub fn is_valid(&self) -> bool {
        self.a.iter().all(|&(u, w)| u != w && self.v.contains(&u) && self.v.contains(&w))
    }

    pub fn has_arc(&self, u: usize, w: usize) -> bool {
        self.a.contains(&(u, w))
    }

    pub fn rows(&self) -> Vec<BTreeSet<usize>> {
        assert!(self.is_contiguous(), "rows() on non-contiguous model");
        let mut rows = vec![BTreeSet::new(); self.order()];
        for &(u, w) in &self.a {
            let _ = rows[u].insert(w);
        }
        rows
    }

    pub fn out_neighbors(&self, u: usize) -> BTreeSet<usize> {
        self.a.range((u, 0)..=(u, usize::MAX)).map(|&(_, w)| w).collect()
    }

    pub fn outdegree(&self, u: usize) -> usize {
        self.a.range((u, 0)..=(u, usize::MAX)).count()
    }

    pub fn indegree(&self, w: usize) -> usize {
        self.a.iter().filter(|&&(_, x)| x == w).count()
    }

    // ---- operations as set definitions (C11) ----

    pub fn complement(&self) -> Self {
        let mut a = BTreeSet::new();
        for &u in &self.v {
            for &w in &self.v {
                if u != w && !self.a.contains(&(u, w)) {
                    let _ = a.insert((u, w));
                }
            }
        }
        Self { v: self.v.clone(), a }
    }

    pub fn converse(&self) -> Self {
        Self { v: self.v.clone(), a: self.a.iter().map(|&(u, w)| (w, u)).collect() }
    }

    pub fn union(&self, other: &Self) -> Self {
        Self {
            v: self.v.union(&other.v).copied().collect(),
            a: self.a.union(&other.a).copied().collect(),
        }
    }

    pub fn induced(&self, keep: &BTreeSet<usize>) -> Self {
        Self {
            v: self.v.intersection(keep).copied().collect(),
            a: self
                .a
                .iter()
                .copied()
                .filter(|(u, w)| keep.contains(u) && keep.contains(w))
                .collect(),
        }
    }

    // ---- predicates as definitions (C12) ----

    pub fn is_complete(&self) -> bool {
        self.v.iter().all(|&u| self.v.iter().all(|&w| u == w || self.has_arc(u, w)))
    }

    pub fn is_semicomplete(&self) -> bool {
        self.v
            .iter()
            .all(|&u| self.v.iter().all(|&w| u == w || self.has_arc(u, w) || self.has_arc(w, u)))
    }

    pub fn is_tournament(&self) -> bool {
        self.v
            .iter()
            .all(|&u| self.v.iter().all(|&w| u == w || (self.has_arc(u, w) != self.has_arc(w, u))))
    }

    /// (outdegree, indegree) of every vertex, from one pass over the arcs (the per-vertex methods above
    /// are the definitions; this is the same count for digraphs with 10^5 and more arcs).
    pub fn degrees(&self) -> BTreeMap<usize, (usize, usize)> {
        let mut m: BTreeMap<usize, (usize, usize)> = self.v.iter().map(|&u| (u, (0, 0))).collect();
        for &(u, w) in &self.a {
            m.entry(u).or_default().0 += 1;
            m.entry(w).or_default().1 += 1;
        }
        m
    }

    pub fn is_regular(&self) -> bool {
        let deg = self.degrees();
        let Some(&first) = self.v.iter().next() else { return true };
        let k = deg[&first].0;
        self.v.iter().all(|u| deg[u] == (k, k))
    }

    pub fn is_balanced(&self) -> bool {
        let deg = self.degrees();
        self.v.iter().all(|u| deg[u].0 == deg[u].1)
    }

    pub fn is_symmetric(&self) -> bool {
        self.a.iter().all(|&(u, w)| self.has_arc(w, u))
    }

    pub fn is_oriented(&self) -> bool {
        self.a.iter().all(|&(u, w)| !self.has_arc(w, u))
    }

    pub fn is_subdigraph(&self, d: &Self) -> bool {
        self.v.is_subset(&d.v) && self.a.is_subset(&d.a)
    }

    pub fn is_superdigraph(&self, d: &Self) -> bool {
        d.is_subdigraph(self)
    }

    pub fn is_spanning_subdigraph(&self, d: &Self) -> bool {
        self.v == d.v && self.a.is_subset(&d.a)
    }

    pub fn degree_sequence(&self) -> Vec<usize> {
        let deg = self.degrees();
        self.v.iter().map(|u| deg[u].0 + deg[u].1).collect()
    }

    // ---- closed forms of the deterministic generators (C14) ----

    pub fn complete(n: usize) -> Self {
        let mut d = Self::empty(n);
        for u in 0..n {
            for w in 0..n {
                if u != w {
                    let _ = d.a.insert((u, w));
                }
            }
        }
        d
    }

    pub fn circuit(n: usize) -> Self {
        let mut d = Self::empty(n);
        if n > 1 {
            for i in 0..n {
                let _ = d.a.insert((i, (i + 1) % n));
            }
        }
        d
    }

    pub fn cycle(n: usize) -> Self {
        let c = Self::circuit(n);
        let r = c.converse();
        c.union(&r)
    }

    pub fn path(n: usize) -> Self {
        let mut d = Self::empty(n);
        for i in 0..n.saturating_sub(1) {
            let _ = d.a.insert((i, i + 1));
        }
        d
    }

    pub fn star(n: usize) -> Self {
        let mut d = Self::empty(n);
        for i in 1..n {
            let _ = d.a.insert((0, i));
            let _ = d.a.insert((i, 0));
        }
        d
    }

    /// star(n) plus the cycle through 1..n-1 (n >= 4).
    pub fn wheel(n: usize) -> Self {
        let mut d = Self::star(n);
        let rim = n - 1; // vertices 1..=rim
        for i in 0..rim {
            let u = 1 + i;
            let w = 1 + (i + 1) % rim;
            let _ = d.a.insert((u, w));
            let _ = d.a.insert((w, u));
        }
        d
    }

    pub fn biclique(m: usize, n: usize) -> Self {
        let mut d = Self::empty(m + n);
        for u in 0..m {
            for w in m..m + n {
                let _ = d.a.insert((u, w));
                let _ = d.a.insert((w, u));
            }
        }
        d
    }

    // ---- validity of random generators (C15) ----

    /// vertex 0 has no out-arc; every u >= 1 has exactly one out-arc, to a smaller vertex.
    pub fn is_recursive_tree(&self) -> bool {
        self.is_contiguous()
            && self.outdegree(0) == 0
            && (1..self.order()).all(|u| {
                let o = self.out_neighbors(u);
                o.len() == 1 && o.iter().all(|&w| w < u)
            })
    }
}

/// Arc-weighted model digraph (weights as i128 so both isize and usize fit).
#[derive(Clone, Debug, Default, PartialEq, Eq, PartialOrd, Ord, Hash, Serialize, Deserialize)]
pub struct WDg {
    pub v: BTreeSet<usize>,
    #[serde(with = "wmap")]
    pub a: BTreeMap<(usize, usize), i64>,
}

mod wmap {
    use serde::{Deserialize, Deserializer, Serialize, Serializer};
    use std::collections::BTreeMap;

    pub fn serialize<S: Serializer>(
        m: &BTreeMap<(usize, usize), i64>,
        s: S,
    ) -> Result<S::Ok, S::Error> {
        m.iter().map(|(&(u, w), &x)| (u, w, x)).collect::<Vec<_>>().serialize(s)
    }

    pub fn deserialize<'de, D: Deserializer<'de>>(
        d: D,
    ) -> Result<BTreeMap<(usize, usize), i64>, D::Error> {
        Ok(Vec::<(usize, usize, i64)>::deserialize(d)?
            .into_iter()
            .map(|(u, w, x)| ((u, w), x))
            .collect())
    }
}

impl WDg {
    pub fn empty(order: usize) -> Self {
        Self { v: (0..order).collect(), a: BTreeMap::new() }
    }

    pub fn order(&self) -> usize {
        self.v.len()
    }

    pub fn unweighted(&self) -> Dg {
        Dg { v: self.v.clone(), a: self.a.keys().copied().collect() }
    }

    pub fn converse(&self) -> Self {
        Self { v: self.v.clone(), a: self.a.iter().map(|(&(u, w), &x)| ((w, u), x)).collect() }
    }

    pub fn rows(&self) -> Vec<BTreeMap<usize, i64>> {
        let mut rows = vec![BTreeMap::new(); self.order()];
        for (&(u, w), &x) in &self.a {
            let _ = rows[u].insert(w, x);
        }
        rows
    }
}
