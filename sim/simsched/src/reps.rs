//! The four unweighted representations behind one harness-side trait, so
//! that lanes can state a check once and apply it to every representation.

use crate::ops::{build_edge_list, build_list, build_map, build_matrix, observe, Obs};
use graaf::{
    AddArc, AdjacencyList, AdjacencyMap, AdjacencyMatrix, Arcs, EdgeList, HasArc, Order, RemoveArc, Size, Vertices,
};
use std::panic::{catch_unwind, AssertUnwindSafe};
use vmodel::dg::Dg;

pub trait Rep:
    Clone + PartialEq + Eq + Ord + std::hash::Hash + std::fmt::Debug + Order + Size + Vertices + Arcs + HasArc + AddArc + RemoveArc + Send + Sync + 'static
{
    const NAME: &'static str;
    /// vertex set is always 0..order
    const FIXED_ORDER: bool;
    fn build(d: &Dg) -> Self;
    fn obs(&self) -> Obs {
        observe(self)
    }
}

impl Rep for AdjacencyList {
    const NAME: &'static str = "AdjacencyList";
    const FIXED_ORDER: bool = true;
    fn build(d: &Dg) -> Self {
        build_list(d)
    }
}

impl Rep for AdjacencyMap {
    const NAME: &'static str = "AdjacencyMap";
    const FIXED_ORDER: bool = false;
    fn build(d: &Dg) -> Self {
        build_map(d)
    }
}

impl Rep for AdjacencyMatrix {
    const NAME: &'static str = "AdjacencyMatrix";
    const FIXED_ORDER: bool = true;
    fn build(d: &Dg) -> Self {
        build_matrix(d)
    }
}

impl Rep for EdgeList {
    const NAME: &'static str = "EdgeList";
    const FIXED_ORDER: bool = true;
    fn build(d: &Dg) -> Self {
        build_edge_list(d)
    }
}

pub fn panic_message(p: &(dyn std::any::Any + Send)) -> String {
    if let Some(s) = p.downcast_ref::<&str>() {
        (*s).to_string()
    } else if let Some(s) = p.downcast_ref::<String>() {
        s.clone()
    } else {
        "<non-string panic payload>".to_string()
    }
}

/// Run a step that may panic (on the plain worker thread, outside any
/// scheduled execution).
pub fn guard<T>(f: impl FnOnce() -> T) -> Result<T, String> {
    catch_unwind(AssertUnwindSafe(f)).map_err(|p| panic_message(&*p))
}

pub fn input_class(d: &Dg) -> &'static str {
    if d.is_contiguous() {
        "contiguous"
    } else {
        "noncontiguous"
    }
}
