//! simsched — deterministic simulation engine for graaf's threaded and
//! history-dependent behaviour (see /verif/DESIGN.md).

mod core;
mod dynrep;
mod exec;
mod lanes;
mod ledger;
mod ops;
mod reps;
mod sched;
mod shrink;

use crate::core::{dump, minimise, read_words, replay, worker, Lane, Tier, WorkerArgs};

#[global_allocator]
static GLOBAL: ledger::Ledger = ledger::Ledger;

fn arg(args: &[String], name: &str) -> Option<String> {
    args.iter().position(|a| a == name).and_then(|i| args.get(i + 1).cloned())
}

macro_rules! dispatch {
    ($prop:expr, $f:ident, $($a:expr),*) => {
        match $prop {
            "C01" => $f::<lanes::c01::C01>($($a),*),
            "C11" => $f::<lanes::c11::C11>($($a),*),
            "C12" => $f::<lanes::c12::C12>($($a),*),
            "C13" => $f::<lanes::c13::C13>($($a),*),
            "C14" => $f::<lanes::c14::C14>($($a),*),
            "C15" => $f::<lanes::c15::C15>($($a),*),
            "C17" => $f::<lanes::c17::C17>($($a),*),
            "C20" => $f::<lanes::c20::C20>($($a),*),
            other => {
                eprintln!("unknown property {other}");
                std::process::exit(2);
            }
        }
    };
}

fn do_replay<L: Lane>(path: &str) -> i32 {
    match replay::<L>(path) {
        Err(e) => {
            eprintln!("replay error: {e}");
            2
        }
        Ok((rf, vs)) => {
            let want = &rf.violation;
            let mut same = false;
            for v in &vs {
                println!("REPLAYED class={} op={} signature=\"{}\" detail={}", v.class, v.op, v.signature, v.detail);
                if v.class == want.class && v.op == want.op {
                    same = true;
                    if let (Some(a), Some(b)) = (&v.trace, &want.trace) {
                        if v.conf_index == want.conf_index && a != b {
                            println!("TRACE-MISMATCH recorded {} decisions, replayed {}", b.len(), a.len());
                            return 2;
                        }
                    }
                }
            }
            if want.class == "process_killed" {
                // reaching this line means the scenario did not kill the process this time
                println!("NOT-REPRODUCED property={} signature=\"{}\"", rf.property, want.signature);
                return 0;
            }
            if same {
                println!("REPRODUCED property={} signature=\"{}\"", rf.property, want.signature);
                1
            } else {
                println!("NOT-REPRODUCED property={} signature=\"{}\"", rf.property, want.signature);
                0
            }
        }
    }
}

fn do_minimise<L: Lane>(path: &str, out: &str, budget: usize) -> i32 {
    match minimise::<L>(path, out, budget) {
        Ok(rf) => {
            println!("MINIMISED {} -> {} ({})", path, out, rf.note);
            0
        }
        Err(e) => {
            eprintln!("minimise error: {e}");
            2
        }
    }
}

fn property_of(path: &str) -> String {
    let text = std::fs::read_to_string(path).unwrap_or_default();
    let v: serde_json::Value = serde_json::from_str(&text).unwrap_or(serde_json::Value::Null);
    v.get("property").and_then(|p| p.as_str()).unwrap_or("").to_string()
}

fn main() {
    // no backtraces / messages from expected panics; shuttle chains its own hook after this one
    if std::env::var("VERIF_PANIC_VERBOSE").is_ok() {
        // development aid: show where a panic came from
        std::panic::set_hook(Box::new(|info| eprintln!("PANIC: {info}")));
    } else {
        std::panic::set_hook(Box::new(|_| {}));
    }
    std::env::remove_var("SHUTTLE_RANDOM_SEED");
    let args: Vec<String> = std::env::args().collect();
    let cmd = args.get(1).map(String::as_str).unwrap_or("");
    let code = match cmd {
        "worker" => {
            let prop = arg(&args, "--prop").expect("--prop");
            let a = WorkerArgs {
                tier: Tier::parse(&arg(&args, "--tier").expect("--tier")).expect("tier"),
                verif_seed: arg(&args, "--seed").expect("--seed").parse().expect("seed"),
                shard: arg(&args, "--shard").expect("--shard").parse().expect("shard"),
                shards: arg(&args, "--shards").expect("--shards").parse().expect("shards"),
                runs: arg(&args, "--runs").expect("--runs").parse().expect("runs"),
                out: arg(&args, "--out").expect("--out"),
                replay_dir: arg(&args, "--replay-dir").expect("--replay-dir"),
                only_run: arg(&args, "--only-run").map(|s| s.parse().expect("only-run")),
                from: arg(&args, "--from").map(|s| s.parse().expect("from")),
                upto: arg(&args, "--upto").map(|s| s.parse().expect("upto")),
                skip: arg(&args, "--skip")
                    .map(|s| s.split(',').filter(|x| !x.is_empty()).map(|x| x.parse().expect("skip")).collect())
                    .unwrap_or_default(),
            };
            dispatch!(prop.as_str(), worker, &a)
        }
        "dump" => {
            let prop = arg(&args, "--prop").expect("--prop");
            let tier = Tier::parse(&arg(&args, "--tier").expect("--tier")).expect("tier");
            let seed: u64 = arg(&args, "--seed").expect("--seed").parse().expect("seed");
            let run: u64 = arg(&args, "--run").expect("--run").parse().expect("run");
            let out = arg(&args, "--out").expect("--out");
            dispatch!(prop.as_str(), dump, tier, seed, run, &out)
        }
        "replay" => {
            let path = args.get(2).expect("replay <file>");
            let prop = property_of(path);
            dispatch!(prop.as_str(), do_replay, path)
        }
        "minimise" => {
            let path = args.get(2).expect("minimise <file> <out>");
            let out = args.get(3).expect("minimise <file> <out>");
            let budget = arg(&args, "--budget").map_or(2000, |s| s.parse().expect("budget"));
            let prop = property_of(path);
            dispatch!(prop.as_str(), do_minimise, path, out, budget)
        }
        "fidelity" => {
            // the corpus of the seam-fidelity self-test, simulated at --cpus k
            let k: usize = arg(&args, "--cpus").expect("--cpus").parse().expect("cpus");
            println!("cpus {k}");
            let conf = exec::Conf {
                cpu: Some(k),
                sched: sched::SchedSpec { kind: sched::SchedKind::Random, seed: 42, hold: false, callers: 0 },
                trace: None,
            };
            for (i, (kind, d, e)) in vmodel::gen::fidelity_corpus().into_iter().enumerate() {
                let op = match kind {
                    "complement" => ops::TOp::ListComplement { d: d.clone() },
                    "complete" => ops::TOp::ListComplete { order: d.order() },
                    "degree_sequence" => ops::TOp::ListDegreeSequence { d: d.clone() },
                    "is_semicomplete" => ops::TOp::ListIsSemicomplete { d: d.clone() },
                    "list_union" => ops::TOp::ListUnion { d: d.clone(), e: e.clone() },
                    _ => ops::TOp::MapUnion { d: d.clone(), e: e.clone() },
                };
                let rep = lanes::exec_top(&op, &conf, 1);
                let Some(res) = rep.value else {
                    println!("{i} {kind} execution-failed");
                    continue;
                };
                let exp = op.expected().expect("deterministic op");
                let ok = ops::compare(&res[0].out, &exp).is_ok();
                let line = match &res[0].out {
                    ops::Out::Dg(o) => vmodel::gen::fidelity_line(kind, i, &o.verts, &o.arcs, &[], false, ok),
                    ops::Out::Seq(s) => vmodel::gen::fidelity_line(kind, i, &[], &[], s, false, ok),
                    ops::Out::Bool(b) => vmodel::gen::fidelity_line(kind, i, &[], &[], &[], *b, ok),
                };
                println!("{line}");
            }
            0
        }
        "distinct" => {
            // count distinct 64-bit digests over several files
            let mut all: Vec<u64> = Vec::new();
            for p in &args[2..] {
                all.extend(read_words(p));
            }
            let total = all.len();
            all.sort_unstable();
            all.dedup();
            println!("{} {}", all.len(), total);
            0
        }
        _ => {
            eprintln!("usage: simsched worker|replay|minimise|distinct ...");
            2
        }
    };
    std::process::exit(code);
}
