//! One execution = one call of `shuttle::Runner::run` with a scheduler built
//! from the run's seed. The closure runs on shuttle's main task; the threaded
//! graaf operations inside it spawn shuttle tasks through the seam.

use crate::sched::{ExecLog, SchedKind, SchedSpec, SimScheduler, OP_RETURNED};
use graaf::verif_seam::{set_parallelism, Parallelism};
use serde::{Deserialize, Serialize};
use std::num::NonZero;
use std::panic::{catch_unwind, AssertUnwindSafe};
use std::sync::{Arc, Mutex};
use vmodel::gen::Cpu;

/// Liveness bound per execution, in scheduling decisions. The largest legitimate execution (a random
/// tournament of order 600, one lock per arc, two calls) needs about 0.8 million.
pub const MAX_STEPS: usize = 4_000_000;

/// A configuration: what `available_parallelism()` answers, which scheduler
/// decides the interleaving, and (in replay files) the recorded decisions.
#[derive(Clone, Debug, PartialEq, Eq, Serialize, Deserialize)]
pub struct Conf {
    /// `Some(n)`: n CPUs; `None`: the query fails (injected fault)
    pub cpu: Cpu,
    pub sched: SchedSpec,
    #[serde(default, skip_serializing_if = "Option::is_none")]
    pub trace: Option<Vec<u32>>,
}

#[derive(Clone, Debug)]
pub enum Failure {
    /// a panic escaped the execution (worker panic, or the operation itself)
    Panic(String),
    Deadlock(String),
    StepOverrun(String),
}

impl Failure {
    pub fn class(&self) -> &'static str {
        match self {
            Failure::Panic(_) => "panic_in_execution",
            Failure::Deadlock(_) => "deadlock",
            Failure::StepOverrun(_) => "step_overrun",
        }
    }
    pub fn message(&self) -> &str {
        match self {
            Failure::Panic(m) | Failure::Deadlock(m) | Failure::StepOverrun(m) => m,
        }
    }
}

pub struct ExecReport<R> {
    pub value: Option<R>,
    pub failure: Option<Failure>,
    pub log: ExecLog,
}

pub fn cpu_to_parallelism(cpu: Cpu) -> Parallelism {
    match cpu {
        Some(n) => Parallelism::Count(NonZero::new(n.max(1)).unwrap()),
        None => Parallelism::Unsupported,
    }
}

fn payload_message(p: &(dyn std::any::Any + Send)) -> String {
    if let Some(s) = p.downcast_ref::<&str>() {
        (*s).to_string()
    } else if let Some(s) = p.downcast_ref::<String>() {
        s.clone()
    } else {
        "<non-string panic payload>".to_string()
    }
}

/// Run `f` as the main task of one scheduled execution.
pub fn run_exec<F, R>(conf: &Conf, f: F) -> ExecReport<R>
where
    F: Fn() -> R + Send + Sync + 'static,
    R: Send + 'static,
{
    let log = Arc::new(Mutex::new(ExecLog::default()));
    let spec = if conf.trace.is_some() && matches!(conf.sched.kind, SchedKind::Trace) {
        conf.sched.clone()
    } else {
        conf.sched.clone()
    };
    let trace = if matches!(spec.kind, SchedKind::Trace | SchedKind::TracePrefix) { conf.trace.clone() } else { None };
    let scheduler = SimScheduler::new(spec, trace, Arc::clone(&log));
    let mut cfg = shuttle::Config::new();
    cfg.stack_size = 1 << 20;
    cfg.failure_persistence = shuttle::FailurePersistence::None;
    cfg.max_steps = shuttle::MaxSteps::FailAfter(MAX_STEPS);
    cfg.silence_warnings = true;
    let slot: Arc<Mutex<Option<R>>> = Arc::new(Mutex::new(None));
    let slot2 = Arc::clone(&slot);
    let par = cpu_to_parallelism(conf.cpu);
    OP_RETURNED.with(|c| c.set(false));
    let runner = shuttle::Runner::new(scheduler, cfg);
    let res = catch_unwind(AssertUnwindSafe(move || {
        let _ = runner.run(move || {
            let _ = set_parallelism(par);
            OP_RETURNED.with(|c| c.set(false));
            let r = f();
            OP_RETURNED.with(|c| c.set(true));
            *slot2.lock().unwrap() = Some(r);
        });
    }));
    OP_RETURNED.with(|c| c.set(false));
    let _ = set_parallelism(Parallelism::Std);
    let failure = match res {
        Ok(()) => None,
        Err(p) => {
            let m = payload_message(&*p);
            let ml = m.to_lowercase();
            Some(if ml.contains("deadlock") {
                Failure::Deadlock(m)
            } else if ml.contains("exceeded max_steps") || ml.contains("max_steps") {
                Failure::StepOverrun(m)
            } else {
                Failure::Panic(m)
            })
        }
    };
    let value = slot.lock().unwrap_or_else(std::sync::PoisonError::into_inner).take();
    let log = log.lock().unwrap_or_else(std::sync::PoisonError::into_inner).clone();
    ExecReport { value, failure, log }
}
