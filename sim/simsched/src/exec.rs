//! One execution = one call of `shuttle::Runner::run` with a scheduler built
//! from the run's seed. The closure runs on shuttle's main task; the threaded
//! graaf operations inside it spawn shuttle tasks through the seam.

use crate::sched::{ExecLog, SchedKind, SchedSpec, SimScheduler, OP_RETURNED};
use graaf::verif_seam::{extra_preemption_points, set_extra_preemption, set_parallelism, Parallelism};
use serde::{Deserialize, Serialize};
use std::num::NonZero;
use std::panic::{catch_unwind, AssertUnwindSafe};
use std::sync::{Arc, Mutex};
use vmodel::gen::Cpu;

/// Liveness bound per execution, in scheduling decisions. The largest legitimate execution (a random
/// tournament of order 600, one lock per arc, two calls) needs about 0.8 million.
pub const MAX_STEPS: usize = 4_000_000;

/// A configuration: what `available_parallelism()` answers, which scheduler
/// decides the interleaving, and (in replay files) the recorded decisions.
#[derive(Clone, Debug, PartialEq, Eq, Serialize, Deserialize)]
pub struct Conf {
    /// `Some(n)`: n CPUs; `None`: the query fails (injected fault)
    pub cpu: Cpu,
    pub sched: SchedSpec,
    #[serde(default, skip_serializing_if = "Option::is_none")]
    pub trace: Option<Vec<u32>>,
}

#[derive(Clone, Debug)]
pub enum Failure {
    /// a panic escaped the execution (worker panic, or the operation itself)
    Panic(String),
    Deadlock(String),
    StepOverrun(String),
}

impl Failure {
    pub fn class(&self) -> &'static str {
        match self {
            Failure::Panic(_) => "panic_in_execution",
            Failure::Deadlock(_) => "deadlock",
            Failure::StepOverrun(_) => "step_overrun",
        }
    }
    pub fn message(&self) -> &str {
        match self {
            Failure::Panic(m) | Failure::Deadlock(m) | Failure::StepOverrun(m) => m,
        }
    }
}

pub struct ExecReport<R> {
    pub value: Option<R>,
    pub failure: Option<Failure>,
    pub log: ExecLog,
}

pub fn cpu_to_parallelism(cpu: Cpu) -> Parallelism {
    match cpu {
        Some(n) => Parallelism::Count(NonZero::new(n.max(1)).unwrap()),
        None => Parallelism::Unsupported,
    }
}

fn payload_message(p: &(dyn std::any::Any + Send)) -> String {
    if let Some(s) = p.downcast_ref::<&str>() {
        (*s).to_string()
    } else if let Some(s) = p.downcast_ref::<String>() {
        s.clone()
    } else {
        "<non-string panic payload>".to_string()
    }
}

/// Run `f` as the main task of one scheduled execution.
pub fn run_exec<F, R>(conf: &Conf, f: F) -> ExecReport<R>
where
    F: Fn() -> R + Send + Sync + 'static,
    R: Send + 'static,
{
    let log = Arc::new(Mutex::new(ExecLog::default()));
    let spec = if conf.trace.is_some() && matches!(conf.sched.kind, SchedKind::Trace) {
        conf.sched.clone()
    } else {
        conf.sched.clone()
    };
    let trace = if matches!(spec.kind, SchedKind::Trace | SchedKind::TracePrefix) { conf.trace.clone() } else { None };
    let scheduler = SimScheduler::new(spec, trace, Arc::clone(&log));
    let mut cfg = shuttle::Config::new();
    cfg.stack_size = 1 << 20;
    cfg.failure_persistence = shuttle::FailurePersistence::None;
    cfg.max_steps = shuttle::MaxSteps::FailAfter(MAX_STEPS);
    cfg.silence_warnings = true;
    let slot: Arc<Mutex<Option<R>>> = Arc::new(Mutex::new(None));
    let slot2 = Arc::clone(&slot);
    let par = cpu_to_parallelism(conf.cpu);
    // executions nest (a lane's run is itself the main task of an ambient execution): restore what the
    // enclosing execution simulates when this one is over
    let outer_par = set_parallelism(Parallelism::Std);
    let hold = conf.sched.hold;
    let outer_hold = set_extra_preemption(false);
    let points_before = extra_preemption_points();
    OP_RETURNED.with(|c| c.set(false));
    let runner = shuttle::Runner::new(scheduler, cfg);
    let res = catch_unwind(AssertUnwindSafe(move || {
        let _ = runner.run(move || {
            let _ = set_parallelism(par);
            let _ = set_extra_preemption(hold);
            OP_RETURNED.with(|c| c.set(false));
            let r = f();
            OP_RETURNED.with(|c| c.set(true));
            *slot2.lock().unwrap() = Some(r);
        });
    }));
    OP_RETURNED.with(|c| c.set(false));
    let _ = set_parallelism(outer_par);
    let _ = set_extra_preemption(outer_hold);
    let failure = match res {
        Ok(()) => None,
        Err(p) => {
            let m = payload_message(&*p);
            let ml = m.to_lowercase();
            Some(if ml.contains("deadlock") {
                Failure::Deadlock(m)
            } else if ml.contains("exceeded max_steps") || ml.contains("max_steps") {
                Failure::StepOverrun(m)
            } else {
                Failure::Panic(m)
            })
        }
    };
    let value = slot.lock().unwrap_or_else(std::sync::PoisonError::into_inner).take();
    let mut log = log.lock().unwrap_or_else(std::sync::PoisonError::into_inner).clone();
    log.extra_points = extra_preemption_points() - points_before;
    ExecReport { value, failure, log }
}

/// The ambient execution. A lane's `run` drives graaf's *sequential* API directly and starts one
/// scheduled execution (`run_exec`) per configuration for the operations that are threaded today. Which
/// functions are threaded is a property of the tree under test, not of this harness: a function that a
/// later change parallelises through the seam must meet a scheduler and a simulated CPU count wherever
/// the harness happens to call it, instead of failing with "Shuttle primitive used outside an
/// execution". So the whole of `run` is the main task of one more execution whose CPU count and
/// schedule are a pure function of the scenario (replay files need nothing extra); `run_exec` nests
/// inside it.
pub fn ambient_conf(scenario_digest: u64) -> Conf {
    let mut rng = vmodel::rng::Rng::new(vmodel::rng::mix(&[scenario_digest, 0xA3B1_E47A]));
    let cpu = match rng.below(12) {
        0 => None,
        1 => Some(1),
        2 | 3 => Some(16),
        4 => Some(*rng.pick(&[17, 31, 32, 33, 64, 128, 255])),
        _ => Some(rng.range(2, 16)),
    };
    let seed = rng.next_u64();
    let kind = match rng.below(8) {
        0..=3 => SchedKind::Random,
        4 => SchedKind::Sticky { switch: 100 },
        5 => SchedKind::Pct { depth: rng.range(1, 4) as u32, est_steps: 64 },
        6 => SchedKind::RoundRobin,
        _ => SchedKind::NewestFirst,
    };
    Conf { cpu, sched: SchedSpec { kind, seed, hold: crate::sched::hold_for_seed(seed), callers: crate::sched::callers_for_seed(seed) }, trace: None }
}

/// Call `f` with the simulated CPU count `cpu` (inside the ambient execution, which schedules whatever
/// workers `f` starts).
pub fn with_cpu<T>(cpu: Cpu, f: impl FnOnce() -> T) -> T {
    let prev = set_parallelism(cpu_to_parallelism(cpu));
    let r = f();
    let _ = set_parallelism(prev);
    r
}

pub fn run_ambient<R: Send + 'static>(conf: &Conf, f: impl FnOnce() -> R + Send + 'static) -> ExecReport<R> {
    let cell = Mutex::new(Some(f));
    let log = Arc::new(Mutex::new(ExecLog::default()));
    let scheduler = SimScheduler::new(conf.sched.clone(), None, Arc::clone(&log));
    let mut cfg = shuttle::Config::new();
    cfg.stack_size = 64 << 20;
    cfg.failure_persistence = shuttle::FailurePersistence::None;
    cfg.max_steps = shuttle::MaxSteps::FailAfter(MAX_STEPS);
    cfg.silence_warnings = true;
    let slot: Arc<Mutex<Option<R>>> = Arc::new(Mutex::new(None));
    let slot2 = Arc::clone(&slot);
    let par = cpu_to_parallelism(conf.cpu);
    let outer_par = set_parallelism(Parallelism::Std);
    let hold = conf.sched.hold;
    let outer_hold = set_extra_preemption(false);
    let points_before = extra_preemption_points();
    let runner = shuttle::Runner::new(scheduler, cfg);
    let res = catch_unwind(AssertUnwindSafe(move || {
        let _ = runner.run(move || {
            let _ = set_parallelism(par);
            let _ = set_extra_preemption(hold);
            let f = cell.lock().unwrap().take().expect("the ambient execution runs once");
            let r = f();
            *slot2.lock().unwrap() = Some(r);
        });
    }));
    let _ = set_parallelism(outer_par);
    let _ = set_extra_preemption(outer_hold);
    let failure = match res {
        Ok(()) => None,
        Err(p) => {
            let m = payload_message(&*p);
            let ml = m.to_lowercase();
            Some(if ml.contains("deadlock") {
                Failure::Deadlock(m)
            } else if ml.contains("max_steps") {
                Failure::StepOverrun(m)
            } else {
                Failure::Panic(m)
            })
        }
    };
    let value = slot.lock().unwrap_or_else(std::sync::PoisonError::into_inner).take();
    let mut log = log.lock().unwrap_or_else(std::sync::PoisonError::into_inner).clone();
    log.extra_points = extra_preemption_points() - points_before;
    ExecReport { value, failure, log }
}
