//! The five representations (weighted list in two weight types) behind one
//! dynamic value, with mutation steps, constructors ("start digraphs reachable
//! through the public constructors") and full observation. Used by the
//! history lanes (C01, C20) and the allocation-ledger lane (C13).

use crate::exec::{run_exec, Conf};
use crate::ops::{build_edge_list, build_list, build_map, build_matrix, build_weighted_isize, build_weighted_usize, WObs};
use crate::reps::guard;
use graaf::{
    AddArc, AddArcWeighted, AdjacencyList, AdjacencyListWeighted, AdjacencyMap, AdjacencyMatrix, ArcWeight, Arcs,
    ArcsWeighted, Biclique, Circuit, Complement, Complete, Converse, Cycle, EdgeList, Empty, ErdosRenyi,
    FilterVertices, HasArc, InNeighbors, Indegree, Degree, Order, OutNeighbors, OutNeighborsWeighted, Outdegree, Path,
    RandomRecursiveTree, RandomTournament, RemoveArc, Size, Star, Union, Vertices, Wheel,
};
use serde::{Deserialize, Serialize};
use std::collections::{BTreeMap, BTreeSet};
use vmodel::dg::{Dg, WDg};

#[derive(Clone, Copy, Debug, PartialEq, Eq, PartialOrd, Ord, Hash, Serialize, Deserialize)]
pub enum ReprKind {
    List,
    Map,
    Matrix,
    Edge,
    WI,
    WU,
}

pub const ALL_KINDS: [ReprKind; 6] =
    [ReprKind::List, ReprKind::Map, ReprKind::Matrix, ReprKind::Edge, ReprKind::WI, ReprKind::WU];

impl ReprKind {
    pub fn name(self) -> &'static str {
        match self {
            ReprKind::List => "AdjacencyList",
            ReprKind::Map => "AdjacencyMap",
            ReprKind::Matrix => "AdjacencyMatrix",
            ReprKind::Edge => "EdgeList",
            ReprKind::WI => "AdjacencyListWeighted<isize>",
            ReprKind::WU => "AdjacencyListWeighted<usize>",
        }
    }
    pub fn weighted(self) -> bool {
        matches!(self, ReprKind::WI | ReprKind::WU)
    }
    pub fn fixed_order(self) -> bool {
        !matches!(self, ReprKind::Map)
    }
}

#[derive(Debug, PartialEq, Eq, PartialOrd, Ord, Hash)]
pub enum DynG {
    List(AdjacencyList),
    Map(AdjacencyMap),
    Matrix(AdjacencyMatrix),
    Edge(EdgeList),
    WI(AdjacencyListWeighted<isize>),
    WU(AdjacencyListWeighted<usize>),
}

#[derive(Clone, Copy, Debug, PartialEq, Eq, Serialize, Deserialize)]
#[serde(tag = "step")]
pub enum Step {
    Add { u: usize, v: usize },
    AddW { u: usize, v: usize, w: i64 },
    Remove { u: usize, v: usize },
    Toggle { u: usize, v: usize },
}

impl Step {
    pub fn op_name(&self) -> &'static str {
        match self {
            Step::Add { .. } => "add_arc",
            Step::AddW { .. } => "add_arc_weighted",
            Step::Remove { .. } => "remove_arc",
            Step::Toggle { .. } => "toggle",
        }
    }
    pub fn uv(&self) -> (usize, usize) {
        match *self {
            Step::Add { u, v } | Step::AddW { u, v, .. } | Step::Remove { u, v } | Step::Toggle { u, v } => (u, v),
        }
    }
}

impl Clone for DynG {
    fn clone(&self) -> Self {
        match self {
            DynG::List(g) => DynG::List(g.clone()),
            DynG::Map(g) => DynG::Map(g.clone()),
            DynG::Matrix(g) => DynG::Matrix(g.clone()),
            DynG::Edge(g) => DynG::Edge(g.clone()),
            DynG::WI(g) => DynG::WI(g.clone()),
            DynG::WU(g) => DynG::WU(g.clone()),
        }
    }

    /// Forwards to the representation's own `clone_from` (which a type may override to reuse storage).
    fn clone_from(&mut self, source: &Self) {
        match (self, source) {
            (DynG::List(a), DynG::List(b)) => a.clone_from(b),
            (DynG::Map(a), DynG::Map(b)) => a.clone_from(b),
            (DynG::Matrix(a), DynG::Matrix(b)) => a.clone_from(b),
            (DynG::Edge(a), DynG::Edge(b)) => a.clone_from(b),
            (DynG::WI(a), DynG::WI(b)) => a.clone_from(b),
            (DynG::WU(a), DynG::WU(b)) => a.clone_from(b),
            (a, b) => *a = b.clone(),
        }
    }
}

macro_rules! each {
    ($self:expr, $g:ident => $e:expr) => {
        match $self {
            DynG::List($g) => $e,
            DynG::Map($g) => $e,
            DynG::Matrix($g) => $e,
            DynG::Edge($g) => $e,
            DynG::WI($g) => $e,
            DynG::WU($g) => $e,
        }
    };
}

impl DynG {
    pub fn kind(&self) -> ReprKind {
        match self {
            DynG::List(_) => ReprKind::List,
            DynG::Map(_) => ReprKind::Map,
            DynG::Matrix(_) => ReprKind::Matrix,
            DynG::Edge(_) => ReprKind::Edge,
            DynG::WI(_) => ReprKind::WI,
            DynG::WU(_) => ReprKind::WU,
        }
    }

    /// Whether the step exists for this representation.
    pub fn supports(kind: ReprKind, s: &Step) -> bool {
        match s {
            Step::Add { .. } => !kind.weighted(),
            Step::AddW { .. } => kind.weighted(),
            Step::Remove { .. } => true,
            Step::Toggle { .. } => kind == ReprKind::Matrix,
        }
    }

    /// Apply one mutating call. `Ok(Some(b))` is remove_arc's return value,
    /// `Err(msg)` a panic (caught; the value stays usable, as for any caller
    /// that catches the documented panic).
    pub fn apply(&mut self, s: &Step) -> Result<Option<bool>, String> {
        match (*s, self) {
            (Step::Add { u, v }, DynG::List(g)) => guard(|| g.add_arc(u, v)).map(|()| None),
            (Step::Add { u, v }, DynG::Map(g)) => guard(|| g.add_arc(u, v)).map(|()| None),
            (Step::Add { u, v }, DynG::Matrix(g)) => guard(|| g.add_arc(u, v)).map(|()| None),
            (Step::Add { u, v }, DynG::Edge(g)) => guard(|| g.add_arc(u, v)).map(|()| None),
            (Step::AddW { u, v, w }, DynG::WI(g)) => guard(|| g.add_arc_weighted(u, v, w as isize)).map(|()| None),
            (Step::AddW { u, v, w }, DynG::WU(g)) => guard(|| g.add_arc_weighted(u, v, w as usize)).map(|()| None),
            (Step::Toggle { u, v }, DynG::Matrix(g)) => guard(|| g.toggle(u, v)).map(|()| None),
            (Step::Remove { u, v }, g) => each!(g, x => guard(|| x.remove_arc(u, v)).map(Some)),
            (s, g) => panic!("step {s:?} is not defined for {}", g.kind().name()),
        }
    }

    /// Everything the digraph shows: order, size, vertices(), arcs() and
    /// arcs_weighted() (weight 0 stands for "unweighted").
    pub fn observe(&self) -> WObs {
        match self {
            DynG::WI(g) => {
                let arcs: Vec<(usize, usize)> = g.arcs().collect();
                let aw: Vec<(usize, usize, i64)> = g.arcs_weighted().map(|(u, v, &w)| (u, v, w as i64)).collect();
                let mut o = WObs { order: g.order(), size: g.size(), verts: g.vertices().collect(), arcs: aw };
                if arcs != o.arcs.iter().map(|&(u, v, _)| (u, v)).collect::<Vec<_>>() {
                    // arcs() and arcs_weighted() disagree: make the observation unusable
                    o.size = usize::MAX;
                }
                o
            }
            DynG::WU(g) => {
                let arcs: Vec<(usize, usize)> = g.arcs().collect();
                let aw: Vec<(usize, usize, i64)> = g.arcs_weighted().map(|(u, v, &w)| (u, v, w as i64)).collect();
                let mut o = WObs { order: g.order(), size: g.size(), verts: g.vertices().collect(), arcs: aw };
                if arcs != o.arcs.iter().map(|&(u, v, _)| (u, v)).collect::<Vec<_>>() {
                    o.size = usize::MAX;
                }
                o
            }
            DynG::List(g) => unweighted_obs(g),
            DynG::Map(g) => unweighted_obs(g),
            DynG::Matrix(g) => unweighted_obs(g),
            DynG::Edge(g) => unweighted_obs(g),
        }
    }

    pub fn has_arc(&self, u: usize, v: usize) -> bool {
        each!(self, g => g.has_arc(u, v))
    }

    pub fn arc_weight(&self, u: usize, v: usize) -> Option<i64> {
        match self {
            DynG::WI(g) => g.arc_weight(u, v).map(|&w| w as i64),
            DynG::WU(g) => g.arc_weight(u, v).map(|&w| w as i64),
            _ => None,
        }
    }

    /// What the digraph shows *around* vertex `u` (which must be in V): out-neighbours with weights
    /// (0 = unweighted), in-neighbours, outdegree, indegree, degree - further observers of the arc set.
    pub fn around(&self, u: usize) -> Result<Around, String> {
        guard(|| {
            let out: Vec<(usize, i64)> = match self {
                DynG::WI(g) => {
                    let plain: Vec<usize> = g.out_neighbors(u).collect();
                    let w: Vec<(usize, i64)> = g.out_neighbors_weighted(u).map(|(v, &w)| (v, w as i64)).collect();
                    assert!(plain == w.iter().map(|&(v, _)| v).collect::<Vec<_>>(), "out_neighbors({u}) and out_neighbors_weighted({u}) disagree");
                    w
                }
                DynG::WU(g) => {
                    let plain: Vec<usize> = g.out_neighbors(u).collect();
                    let w: Vec<(usize, i64)> = g.out_neighbors_weighted(u).map(|(v, &w)| (v, w as i64)).collect();
                    assert!(plain == w.iter().map(|&(v, _)| v).collect::<Vec<_>>(), "out_neighbors({u}) and out_neighbors_weighted({u}) disagree");
                    w
                }
                DynG::List(g) => g.out_neighbors(u).map(|v| (v, 0)).collect(),
                DynG::Map(g) => g.out_neighbors(u).map(|v| (v, 0)).collect(),
                DynG::Matrix(g) => g.out_neighbors(u).map(|v| (v, 0)).collect(),
                DynG::Edge(g) => g.out_neighbors(u).map(|v| (v, 0)).collect(),
            };
            each!(self, g => Around {
                out,
                inn: g.in_neighbors(u).collect(),
                outdegree: g.outdegree(u),
                indegree: g.indegree(u),
                degree: g.degree(u),
            })
        })
    }

    pub fn hash64(&self) -> u64 {
        use std::hash::{Hash, Hasher};
        // fixed-key SipHash (DefaultHasher::new() uses constant keys)
        let mut h = std::collections::hash_map::DefaultHasher::new();
        self.hash(&mut h);
        h.finish()
    }

    /// Build the abstract digraph `d` in representation `kind` through the
    /// mutation API (empty + add_arc...).
    pub fn build(kind: ReprKind, d: &WDg) -> DynG {
        let ud = d.unweighted();
        match kind {
            ReprKind::List => DynG::List(build_list(&ud)),
            ReprKind::Map => DynG::Map(build_map(&ud)),
            ReprKind::Matrix => DynG::Matrix(build_matrix(&ud)),
            ReprKind::Edge => DynG::Edge(build_edge_list(&ud)),
            ReprKind::WI => DynG::WI(build_weighted_isize(d)),
            ReprKind::WU => DynG::WU(build_weighted_usize(d)),
        }
    }
}

#[derive(Clone, Debug, PartialEq, Eq)]
pub struct Around {
    pub out: Vec<(usize, i64)>,
    pub inn: Vec<usize>,
    pub outdegree: usize,
    pub indegree: usize,
    pub degree: usize,
}

fn unweighted_obs<D: Order + Size + Vertices + Arcs>(g: &D) -> WObs {
    WObs {
        order: g.order(),
        size: g.size(),
        verts: g.vertices().collect(),
        arcs: g.arcs().map(|(u, v)| (u, v, 0)).collect(),
    }
}

// ------------------------------------------------------------------ start digraphs

#[derive(Clone, Debug, PartialEq, Serialize, Deserialize)]
#[serde(tag = "start")]
pub enum Start {
    Empty { order: usize },
    /// deterministic generator (unweighted representations)
    Gen { gen: String, a: usize, b: usize },
    /// seeded generator (unweighted representations)
    Rand { gen: String, order: usize, seed: u64, p_bits: u64 },
    /// the digraph `d` built `via` "builder" (empty + add_arc), "from_rows" (From<iterator of rows>),
    /// "from_arcs" (From<iterator of arcs>; matrix / edge list), or "convert:<List|Map|Matrix|Edge>"
    Model { d: WDg, via: String },
    /// result of an operation: "complement" | "converse" | "union" | "filter"
    Derived { op: String, d: Dg, e: Dg },
}

impl Start {
    pub fn label(&self) -> String {
        match self {
            Start::Empty { .. } => "empty".into(),
            Start::Gen { gen, .. } => format!("gen:{gen}"),
            Start::Rand { gen, .. } => format!("rand:{gen}"),
            Start::Model { via, .. } => format!("model:{via}"),
            Start::Derived { op, .. } => format!("derived:{op}"),
        }
    }
}

fn unweighted_gen<R>(gen: &str, a: usize, b: usize) -> R
where
    R: Empty + Complete + Circuit + Cycle + Path + Star + Wheel + Biclique,
{
    match gen {
        "empty" => R::empty(a),
        "complete" => R::complete(a),
        "circuit" => R::circuit(a),
        "cycle" => R::cycle(a),
        "path" => R::path(a),
        "star" => R::star(a),
        "wheel" => R::wheel(a),
        "biclique" => R::biclique(a, b),
        "trivial" => R::trivial(),
        "claw" => R::claw(),
        "utility" => R::utility(),
        other => panic!("unknown generator {other}"),
    }
}

fn unweighted_rand<R>(gen: &str, order: usize, seed: u64, p: f64) -> R
where
    R: RandomTournament + RandomRecursiveTree + ErdosRenyi,
{
    match gen {
        "tournament" => R::random_tournament(order, seed),
        "recursive_tree" => R::random_recursive_tree(order, seed),
        _ => R::erdos_renyi(order, p, seed),
    }
}

fn rows_of(d: &Dg) -> Vec<BTreeSet<usize>> {
    d.rows()
}

fn wrows<W: Copy>(d: &WDg, f: impl Fn(i64) -> W) -> Vec<BTreeMap<usize, W>> {
    d.rows().into_iter().map(|m| m.into_iter().map(|(k, w)| (k, f(w))).collect()).collect()
}

/// Construct the start digraph. Must run inside a scheduled execution when
/// `kind` is List or Map (their constructors may be threaded).
fn construct_inner(kind: ReprKind, start: &Start) -> DynG {
    match start {
        Start::Empty { order } => match kind {
            ReprKind::List => DynG::List(AdjacencyList::empty(*order)),
            ReprKind::Map => DynG::Map(AdjacencyMap::empty(*order)),
            ReprKind::Matrix => DynG::Matrix(AdjacencyMatrix::empty(*order)),
            ReprKind::Edge => DynG::Edge(EdgeList::empty(*order)),
            ReprKind::WI => DynG::WI(AdjacencyListWeighted::empty(*order)),
            ReprKind::WU => DynG::WU(AdjacencyListWeighted::empty(*order)),
        },
        Start::Gen { gen, a, b } => match kind {
            ReprKind::List => DynG::List(unweighted_gen(gen, *a, *b)),
            ReprKind::Map => DynG::Map(unweighted_gen(gen, *a, *b)),
            ReprKind::Matrix => DynG::Matrix(unweighted_gen(gen, *a, *b)),
            ReprKind::Edge => DynG::Edge(unweighted_gen(gen, *a, *b)),
            ReprKind::WI => DynG::WI(AdjacencyListWeighted::from(unweighted_gen::<AdjacencyMatrix>(gen, *a, *b))),
            ReprKind::WU => DynG::WU(AdjacencyListWeighted::from(unweighted_gen::<EdgeList>(gen, *a, *b))),
        },
        Start::Rand { gen, order, seed, p_bits } => {
            let p = f64::from_bits(*p_bits);
            match kind {
                ReprKind::List => DynG::List(unweighted_rand(gen, *order, *seed, p)),
                ReprKind::Map => DynG::Map(unweighted_rand(gen, *order, *seed, p)),
                ReprKind::Matrix => DynG::Matrix(unweighted_rand(gen, *order, *seed, p)),
                ReprKind::Edge => DynG::Edge(unweighted_rand(gen, *order, *seed, p)),
                ReprKind::WI => {
                    DynG::WI(AdjacencyListWeighted::from(unweighted_rand::<AdjacencyMatrix>(gen, *order, *seed, p)))
                }
                ReprKind::WU => {
                    DynG::WU(AdjacencyListWeighted::from(unweighted_rand::<EdgeList>(gen, *order, *seed, p)))
                }
            }
        }
        Start::Model { d, via } => {
            let ud = d.unweighted();
            match (kind, via.as_str()) {
                (_, "builder") => DynG::build(kind, d),
                (ReprKind::List, "from_rows") => DynG::List(AdjacencyList::from(rows_of(&ud))),
                (ReprKind::Map, "from_rows") => DynG::Map(AdjacencyMap::from(rows_of(&ud))),
                (ReprKind::WI, "from_rows") => DynG::WI(AdjacencyListWeighted::from(wrows(d, |w| w as isize))),
                (ReprKind::WU, "from_rows") => DynG::WU(AdjacencyListWeighted::from(wrows(d, |w| w as usize))),
                (ReprKind::Matrix, "from_arcs") => {
                    DynG::Matrix(AdjacencyMatrix::from(ud.a.iter().copied().collect::<Vec<_>>()))
                }
                (ReprKind::Edge, "from_arcs") => DynG::Edge(EdgeList::from(ud.a.iter().copied().collect::<Vec<_>>())),
                (k, v) if v.starts_with("convert:") => {
                    macro_rules! conv {
                        ($src:expr) => {
                            match k {
                                ReprKind::List => DynG::List(AdjacencyList::from($src)),
                                ReprKind::Map => DynG::Map(AdjacencyMap::from($src)),
                                ReprKind::Matrix => DynG::Matrix(AdjacencyMatrix::from($src)),
                                ReprKind::Edge => DynG::Edge(EdgeList::from($src)),
                                ReprKind::WI => DynG::WI(AdjacencyListWeighted::from($src)),
                                ReprKind::WU => DynG::WU(AdjacencyListWeighted::from($src)),
                            }
                        };
                    }
                    match (&v[8..], k) {
                        ("List", ReprKind::List) | ("Map", ReprKind::Map) | ("Matrix", ReprKind::Matrix) | ("Edge", ReprKind::Edge) => {
                            DynG::build(kind, d)
                        }
                        ("List", _) => conv!(build_list(&ud)),
                        ("Map", _) => conv!(build_map(&ud)),
                        ("Matrix", _) => conv!(build_matrix(&ud)),
                        ("Edge", _) => conv!(build_edge_list(&ud)),
                        (other, _) => panic!("unknown conversion source {other}"),
                    }
                }
                (k, v) => panic!("start via {v} is not defined for {}", k.name()),
            }
        }
        Start::Derived { op, d, e } => match (kind, op.as_str()) {
            (ReprKind::List, "complement") => DynG::List(build_list(d).complement()),
            (ReprKind::Map, "complement") => DynG::Map(build_map(d).complement()),
            (ReprKind::Matrix, "complement") => DynG::Matrix(build_matrix(d).complement()),
            (ReprKind::Edge, "complement") => DynG::Edge(build_edge_list(d).complement()),
            (ReprKind::List, "converse") => DynG::List(build_list(d).converse()),
            (ReprKind::Map, "converse") => DynG::Map(build_map(d).converse()),
            (ReprKind::Matrix, "converse") => DynG::Matrix(build_matrix(d).converse()),
            (ReprKind::Edge, "converse") => DynG::Edge(build_edge_list(d).converse()),
            (ReprKind::List, "union") => DynG::List(build_list(d).union(&build_list(e))),
            (ReprKind::Map, "union") => DynG::Map(build_map(d).union(&build_map(e))),
            (ReprKind::Matrix, "union") => DynG::Matrix(build_matrix(d).union(&build_matrix(e))),
            (ReprKind::Edge, "union") => DynG::Edge(build_edge_list(d).union(&build_edge_list(e))),
            (ReprKind::Map, "filter") => {
                let keep = e.v.clone();
                DynG::Map(build_map(d).filter_vertices(move |x| keep.contains(&x)))
            }
            (ReprKind::WI, "converse") => {
                let wd = WDg { v: d.v.clone(), a: d.a.iter().map(|&(u, v)| ((u, v), (u * 31 + v) as i64 - 7)).collect() };
                DynG::WI(build_weighted_isize(&wd).converse())
            }
            (ReprKind::WU, "converse") => {
                let wd = WDg { v: d.v.clone(), a: d.a.iter().map(|&(u, v)| ((u, v), (u * 31 + v) as i64)).collect() };
                DynG::WU(build_weighted_usize(&wd).converse())
            }
            (k, o) => panic!("derived start {o} is not defined for {}", k.name()),
        },
    }
}

/// Whether `start` is defined for `kind`.
pub fn start_supported(kind: ReprKind, start: &Start) -> bool {
    match start {
        Start::Empty { .. } | Start::Gen { .. } | Start::Rand { .. } => true,
        Start::Model { d, via } => match via.as_str() {
            "builder" => kind == ReprKind::Map || d.unweighted().is_contiguous(),
            "from_rows" => {
                matches!(kind, ReprKind::List | ReprKind::Map | ReprKind::WI | ReprKind::WU) && d.unweighted().is_contiguous()
            }
            // From<arcs>: order = largest id + 1, so the last vertex must carry an arc
            "from_arcs" => {
                matches!(kind, ReprKind::Matrix | ReprKind::Edge)
                    && d.unweighted().is_contiguous()
                    && d.a.keys().any(|&(u, v)| u.max(v) + 1 == d.order())
            }
            v => v.starts_with("convert:") && d.unweighted().is_contiguous(),
        },
        Start::Derived { op, d, e } => match op.as_str() {
            "filter" => kind == ReprKind::Map,
            "converse" => kind == ReprKind::Map || d.is_contiguous(),
            "complement" => !kind.weighted() && (kind == ReprKind::Map || d.is_contiguous()),
            "union" => !kind.weighted() && (kind == ReprKind::Map || (d.is_contiguous() && e.is_contiguous())),
            _ => false,
        },
    }
}

pub struct Constructed {
    pub g: Result<DynG, String>,
    /// executions performed (0 or 1) and their log, for statistics
    pub exec: Option<crate::sched::ExecLog>,
}

/// Construct under configuration `conf`: List/Map constructors run inside a
/// scheduled execution (some are threaded), the others on the plain thread.
pub fn construct(kind: ReprKind, start: &Start, conf: &Conf) -> Constructed {
    if matches!(kind, ReprKind::List | ReprKind::Map) {
        let s = start.clone();
        let rep = run_exec(conf, move || construct_inner(kind, &s));
        let g = match (rep.value, rep.failure) {
            (Some(g), None) => Ok(g),
            (_, Some(f)) => Err(format!("{}: {}", f.class(), f.message())),
            (None, None) => Err("execution returned no value".into()),
        };
        Constructed { g, exec: Some(rep.log) }
    } else {
        Constructed { g: guard(|| construct_inner(kind, start)), exec: None }
    }
}
