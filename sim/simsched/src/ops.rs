//! Bridge between the reference model and real graaf values: builders that
//! use only the public API, observers that use only what the properties name
//! (`vertices()`, `arcs()`, `order()`, `size()`), and the eight threaded
//! operations as explicit, serialisable `TOp` values.

use graaf::{
    AddArc, AddArcWeighted, AdjacencyList, AdjacencyListWeighted, AdjacencyMap, AdjacencyMatrix,
    Arcs, ArcsWeighted, Complement, Complete, DegreeSequence, EdgeList, Empty, ErdosRenyi,
    FilterVertices, IsSemicomplete, Order, RandomTournament, RemoveArc, Size, Union, Vertices,
};
use serde::{Deserialize, Serialize};
use std::collections::BTreeSet;
use vmodel::dg::{Dg, WDg};

// ---------------------------------------------------------------- builders

pub fn build_list(d: &Dg) -> AdjacencyList {
    AdjacencyList::from(d.rows())
}

/// Any (V, A) with non-empty V, through the public API only: start from
/// `empty(1)` = {0}, admit every other vertex by adding and removing an arc
/// from 0, add the arcs, and drop vertex 0 again with `filter_vertices` when
/// it does not belong to V.
pub fn build_map(d: &Dg) -> AdjacencyMap {
    assert!(!d.v.is_empty(), "model digraph without vertices");
    if d.is_contiguous() {
        let mut m = AdjacencyMap::empty(d.order());
        for &(u, w) in &d.a {
            m.add_arc(u, w);
        }
        return m;
    }
    let mut m = AdjacencyMap::empty(1);
    for &x in &d.v {
        if x != 0 {
            m.add_arc(0, x);
            let _ = m.remove_arc(0, x);
        }
    }
    for &(u, w) in &d.a {
        m.add_arc(u, w);
    }
    if d.v.contains(&0) {
        m
    } else {
        m.filter_vertices(|x| x != 0)
    }
}

pub fn build_matrix(d: &Dg) -> AdjacencyMatrix {
    assert!(d.is_contiguous());
    let mut m = AdjacencyMatrix::empty(d.order());
    for &(u, w) in &d.a {
        m.add_arc(u, w);
    }
    m
}

pub fn build_edge_list(d: &Dg) -> EdgeList {
    assert!(d.is_contiguous());
    let mut m = EdgeList::empty(d.order());
    for &(u, w) in &d.a {
        m.add_arc(u, w);
    }
    m
}

pub fn build_weighted_isize(d: &WDg) -> AdjacencyListWeighted<isize> {
    let mut m = AdjacencyListWeighted::<isize>::empty(d.order());
    for (&(u, w), &x) in &d.a {
        m.add_arc_weighted(u, w, x as isize);
    }
    m
}

pub fn build_weighted_usize(d: &WDg) -> AdjacencyListWeighted<usize> {
    let mut m = AdjacencyListWeighted::<usize>::empty(d.order());
    for (&(u, w), &x) in &d.a {
        m.add_arc_weighted(u, w, x as usize);
    }
    m
}

// ---------------------------------------------------------------- observers

/// What a digraph shows through the public API.
#[derive(Clone, Debug, PartialEq, Eq, Serialize, Deserialize)]
pub struct Obs {
    pub order: usize,
    pub size: usize,
    pub verts: Vec<usize>,
    pub arcs: Vec<(usize, usize)>,
}

pub fn observe<D: Order + Size + Vertices + Arcs>(d: &D) -> Obs {
    Obs { order: d.order(), size: d.size(), verts: d.vertices().collect(), arcs: d.arcs().collect() }
}

#[derive(Clone, Debug, PartialEq, Eq, Serialize, Deserialize)]
pub struct WObs {
    pub order: usize,
    pub size: usize,
    pub verts: Vec<usize>,
    pub arcs: Vec<(usize, usize, i64)>,
}

pub fn observe_wi(d: &AdjacencyListWeighted<isize>) -> WObs {
    WObs {
        order: d.order(),
        size: d.size(),
        verts: d.vertices().collect(),
        arcs: d.arcs_weighted().map(|(u, w, &x)| (u, w, x as i64)).collect(),
    }
}

pub fn observe_wu(d: &AdjacencyListWeighted<usize>) -> WObs {
    WObs {
        order: d.order(),
        size: d.size(),
        verts: d.vertices().collect(),
        arcs: d.arcs_weighted().map(|(u, w, &x)| (u, w, x as i64)).collect(),
    }
}

fn strictly_ascending<T: Ord>(xs: &[T]) -> bool {
    xs.windows(2).all(|w| w[0] < w[1])
}

impl Obs {
    /// The abstract digraph this observation denotes, or why it denotes none.
    pub fn to_dg(&self) -> Result<Dg, String> {
        if !strictly_ascending(&self.verts) {
            return Err(format!("vertices() not strictly ascending: {:?}", self.verts));
        }
        if !strictly_ascending(&self.arcs) {
            return Err(format!("arcs() not strictly ascending (lexicographic): {:?}", self.arcs));
        }
        if self.order != self.verts.len() {
            return Err(format!("order() = {} but vertices() lists {}", self.order, self.verts.len()));
        }
        if self.size != self.arcs.len() {
            return Err(format!("size() = {} but arcs() lists {}", self.size, self.arcs.len()));
        }
        let d = Dg::from_parts(self.verts.iter().copied(), self.arcs.iter().copied());
        if !d.is_valid() {
            return Err(format!(
                "not a valid digraph (self-loop or endpoint outside V): V={:?} A={:?}",
                self.verts, self.arcs
            ));
        }
        Ok(d)
    }
}

impl WObs {
    pub fn to_wdg(&self) -> Result<WDg, String> {
        if !strictly_ascending(&self.verts) {
            return Err(format!("vertices() not strictly ascending: {:?}", self.verts));
        }
        let keys: Vec<(usize, usize)> = self.arcs.iter().map(|&(u, w, _)| (u, w)).collect();
        if !strictly_ascending(&keys) {
            return Err(format!("arcs_weighted() not strictly ascending: {:?}", self.arcs));
        }
        if self.order != self.verts.len() {
            return Err(format!("order() = {} but vertices() lists {}", self.order, self.verts.len()));
        }
        if self.size != self.arcs.len() {
            return Err(format!("size() = {} but arcs_weighted() lists {}", self.size, self.arcs.len()));
        }
        let d = WDg {
            v: self.verts.iter().copied().collect(),
            a: self.arcs.iter().map(|&(u, w, x)| ((u, w), x)).collect(),
        };
        if !d.unweighted().is_valid() {
            return Err(format!("not a valid digraph: V={:?} A={:?}", self.verts, self.arcs));
        }
        Ok(d)
    }
}

// ---------------------------------------------------------------- threaded operations

/// One call of one of graaf's eight multi-threaded operations, with explicit
/// arguments (so that a scenario is a value that can be written to a replay
/// file, shrunk, and re-executed).
#[derive(Clone, Debug, PartialEq, Serialize, Deserialize)]
#[serde(tag = "op")]
pub enum TOp {
    ListComplement { d: Dg },
    ListComplete { order: usize },
    ListDegreeSequence { d: Dg },
    ListIsSemicomplete { d: Dg },
    /// the operand is `vmodel::gen::dense_boundary(order, seed)`: a giant, dense digraph at the semicomplete
    /// boundary (10^5..10^6 arcs), generated instead of written out
    ListIsSemicompleteDense { order: usize, seed: u64 },
    ListUnion { d: Dg, e: Dg },
    MapUnion { d: Dg, e: Dg },
    /// p as IEEE bits (exact in JSON) plus a readable copy
    MapErdosRenyi { order: usize, p_bits: u64, p: String, seed: u64 },
    MapRandomTournament { order: usize, seed: u64 },
}

#[derive(Clone, Debug, PartialEq, Eq, Serialize, Deserialize)]
pub enum Out {
    Dg(Obs),
    Seq(Vec<usize>),
    Bool(bool),
}

#[derive(Clone, Debug, PartialEq, Eq)]
pub struct OpResult {
    pub out: Out,
    /// operands re-observed after the call differ from before (must be empty)
    pub operand_changed: Vec<String>,
}

impl TOp {
    pub fn name(&self) -> &'static str {
        match self {
            TOp::ListComplement { .. } => "AdjacencyList::complement",
            TOp::ListComplete { .. } => "AdjacencyList::complete",
            TOp::ListDegreeSequence { .. } => "AdjacencyList::degree_sequence",
            TOp::ListIsSemicomplete { .. } | TOp::ListIsSemicompleteDense { .. } => "AdjacencyList::is_semicomplete",
            TOp::ListUnion { .. } => "AdjacencyList::union",
            TOp::MapUnion { .. } => "AdjacencyMap::union",
            TOp::MapErdosRenyi { .. } => "AdjacencyMap::erdos_renyi",
            TOp::MapRandomTournament { .. } => "AdjacencyMap::random_tournament",
        }
    }

    /// Number of rows the operation distributes over its workers.
    pub fn rows(&self) -> usize {
        match self {
            TOp::ListComplement { d } | TOp::ListDegreeSequence { d } | TOp::ListIsSemicomplete { d } => {
                d.order()
            }
            TOp::ListComplete { order }
            | TOp::ListIsSemicompleteDense { order, .. }
            | TOp::MapErdosRenyi { order, .. }
            | TOp::MapRandomTournament { order, .. } => *order,
            TOp::ListUnion { d, e } => d.order().max(e.order()),
            TOp::MapUnion { d, e } => d.order() + e.order(),
        }
    }

    pub fn is_random(&self) -> bool {
        matches!(self, TOp::MapErdosRenyi { .. } | TOp::MapRandomTournament { .. })
    }

    /// The single-threaded definition, evaluated on the model (None for the
    /// seeded generators, which are judged by validity predicates).
    pub fn expected(&self) -> Option<ExpOut> {
        Some(match self {
            TOp::ListComplement { d } => ExpOut::Dg(d.complement()),
            TOp::ListComplete { order } => ExpOut::Dg(Dg::complete(*order)),
            TOp::ListDegreeSequence { d } => ExpOut::Seq(d.degree_sequence()),
            TOp::ListIsSemicomplete { d } => ExpOut::Bool(d.is_semicomplete()),
            TOp::ListIsSemicompleteDense { order, seed } => ExpOut::Bool(vmodel::gen::dense_boundary(*order, *seed).is_semicomplete()),
            TOp::ListUnion { d, e } | TOp::MapUnion { d, e } => ExpOut::Dg(d.union(e)),
            TOp::MapErdosRenyi { .. } | TOp::MapRandomTournament { .. } => return None,
        })
    }

    /// Build the operands from the model (outside the scheduler: builders only
    /// use sequential API), to be moved into the execution.
    pub fn prepare(&self) -> Prepared {
        match self {
            TOp::ListComplement { d } | TOp::ListDegreeSequence { d } | TOp::ListIsSemicomplete { d } => {
                Prepared::List1(build_list(d))
            }
            TOp::ListIsSemicompleteDense { order, seed } => Prepared::List1(build_list(&vmodel::gen::dense_boundary(*order, *seed))),
            TOp::ListUnion { d, e } => Prepared::List2(build_list(d), build_list(e)),
            TOp::MapUnion { d, e } => Prepared::Map2(build_map(d), build_map(e)),
            TOp::ListComplete { .. } | TOp::MapErdosRenyi { .. } | TOp::MapRandomTournament { .. } => {
                Prepared::None
            }
        }
    }

    /// Execute on real graaf types. Must be called inside a scheduled
    /// execution (the seam's primitives are shuttle's).
    pub fn execute(&self, prep: &Prepared) -> OpResult {
        let mut operand_changed = Vec::new();
        let out = match (self, prep) {
            (TOp::ListComplement { .. }, Prepared::List1(g)) => {
                let before = g.clone();
                let r = g.complement();
                if *g != before || observe(g) != observe(&before) {
                    operand_changed.push("self".into());
                }
                Out::Dg(observe(&r))
            }
            (TOp::ListComplete { order }, _) => Out::Dg(observe(&AdjacencyList::complete(*order))),
            (TOp::ListDegreeSequence { .. }, Prepared::List1(g)) => {
                let before = g.clone();
                let r: Vec<usize> = g.degree_sequence().collect();
                if *g != before {
                    operand_changed.push("self".into());
                }
                Out::Seq(r)
            }
            (TOp::ListIsSemicomplete { .. } | TOp::ListIsSemicompleteDense { .. }, Prepared::List1(g)) => {
                let before = g.clone();
                let r = g.is_semicomplete();
                if *g != before {
                    operand_changed.push("self".into());
                }
                Out::Bool(r)
            }
            (TOp::ListUnion { .. }, Prepared::List2(g, h)) => {
                let (bg, bh) = (g.clone(), h.clone());
                let r = g.union(h);
                if *g != bg || observe(g) != observe(&bg) {
                    operand_changed.push("self".into());
                }
                if *h != bh || observe(h) != observe(&bh) {
                    operand_changed.push("other".into());
                }
                Out::Dg(observe(&r))
            }
            (TOp::MapUnion { .. }, Prepared::Map2(g, h)) => {
                let (bg, bh) = (g.clone(), h.clone());
                let r = g.union(h);
                if *g != bg || observe(g) != observe(&bg) {
                    operand_changed.push("self".into());
                }
                if *h != bh || observe(h) != observe(&bh) {
                    operand_changed.push("other".into());
                }
                Out::Dg(observe(&r))
            }
            (TOp::MapErdosRenyi { order, p_bits, seed, .. }, _) => {
                Out::Dg(observe(&AdjacencyMap::erdos_renyi(*order, f64::from_bits(*p_bits), *seed)))
            }
            (TOp::MapRandomTournament { order, seed }, _) => {
                Out::Dg(observe(&AdjacencyMap::random_tournament(*order, *seed)))
            }
            _ => unreachable!("operand kind does not match operation"),
        };
        OpResult { out, operand_changed }
    }
}

#[derive(Clone, Debug)]
pub enum Prepared {
    None,
    List1(AdjacencyList),
    List2(AdjacencyList, AdjacencyList),
    Map2(AdjacencyMap, AdjacencyMap),
}

#[derive(Clone, Debug, PartialEq, Eq)]
pub enum ExpOut {
    Dg(Dg),
    Seq(Vec<usize>),
    Bool(bool),
}

/// Compare an observed output with the model's. `Ok(())` or a description.
pub fn compare(out: &Out, exp: &ExpOut) -> Result<(), String> {
    match (out, exp) {
        (Out::Dg(o), ExpOut::Dg(e)) => {
            let d = o.to_dg()?;
            if &d == e {
                Ok(())
            } else {
                Err(diff_dg(&d, e))
            }
        }
        (Out::Seq(o), ExpOut::Seq(e)) => {
            if o == e {
                Ok(())
            } else {
                Err(format!("sequence {o:?} != expected {e:?}"))
            }
        }
        (Out::Bool(o), ExpOut::Bool(e)) => {
            if o == e {
                Ok(())
            } else {
                Err(format!("returned {o}, definition says {e}"))
            }
        }
        _ => Err("output kind mismatch".into()),
    }
}

pub fn diff_dg(got: &Dg, exp: &Dg) -> String {
    let mv: BTreeSet<_> = exp.v.difference(&got.v).copied().collect();
    let xv: BTreeSet<_> = got.v.difference(&exp.v).copied().collect();
    let ma: Vec<_> = exp.a.difference(&got.a).copied().take(8).collect();
    let xa: Vec<_> = got.a.difference(&exp.a).copied().take(8).collect();
    format!(
        "vertices missing {mv:?} extra {xv:?}; arcs missing {} (e.g. {ma:?}) extra {} (e.g. {xa:?})",
        exp.a.difference(&got.a).count(),
        got.a.difference(&exp.a).count()
    )
}

/// Validity predicates for the seeded generators (C15 / C17).
pub fn check_random_valid(op: &TOp, out: &Out) -> Result<(), String> {
    let Out::Dg(o) = out else { return Err("output kind mismatch".into()) };
    let d = o.to_dg()?;
    match op {
        TOp::MapRandomTournament { order, .. } => {
            if d.v != (0..*order).collect() {
                return Err(format!("vertex set {:?} is not 0..{order}", d.v));
            }
            if !d.is_tournament() {
                return Err(format!("not a tournament: A={:?}", d.a));
            }
            Ok(())
        }
        TOp::MapErdosRenyi { order, p_bits, .. } => {
            let p = f64::from_bits(*p_bits);
            if d.v != (0..*order).collect() {
                return Err(format!("vertex set {:?} is not 0..{order}", d.v));
            }
            if p == 0.0 && !d.a.is_empty() {
                return Err(format!("p = 0 but {} arcs", d.a.len()));
            }
            if p == 1.0 && d.a.len() != order * (order - 1) {
                return Err(format!("p = 1 but {} arcs of {}", d.a.len(), order * (order - 1)));
            }
            Ok(())
        }
        _ => Err("not a random generator".into()),
    }
}
