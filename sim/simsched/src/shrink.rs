//! Candidate generators for minimisation.

use crate::ops::TOp;
use std::collections::BTreeSet;
use vmodel::dg::Dg;

pub fn shrink_usize(n: usize, min: usize) -> Vec<usize> {
    let mut v = Vec::new();
    for c in [min, n / 2, n.saturating_sub(1)] {
        if c >= min && c < n && !v.contains(&c) {
            v.push(c);
        }
    }
    v
}

/// Smaller digraphs: fewer vertices first (contiguous models stay contiguous),
/// then fewer arcs.
pub fn shrink_dg(d: &Dg) -> Vec<Dg> {
    let mut out = Vec::new();
    let n = d.order();
    if n > 1 {
        if d.is_contiguous() {
            for k in shrink_usize(n, 1) {
                let keep: BTreeSet<usize> = (0..k).collect();
                out.push(d.induced(&keep));
            }
        } else {
            // make it contiguous (rename by rank) - often the id pattern is irrelevant
            let rank: Vec<usize> = d.v.iter().copied().collect();
            let pos = |x: usize| rank.binary_search(&x).unwrap();
            out.push(Dg::from_parts(0..n, d.a.iter().map(|&(u, w)| (pos(u), pos(w)))));
            for &x in d.v.iter().rev().take(6) {
                let mut keep = d.v.clone();
                let _ = keep.remove(&x);
                out.push(d.induced(&keep));
            }
        }
    }
    let arcs: Vec<(usize, usize)> = d.a.iter().copied().collect();
    if !arcs.is_empty() {
        out.push(Dg { v: d.v.clone(), a: BTreeSet::new() });
        if arcs.len() > 1 {
            let half = arcs.len() / 2;
            out.push(Dg { v: d.v.clone(), a: arcs[..half].iter().copied().collect() });
            out.push(Dg { v: d.v.clone(), a: arcs[half..].iter().copied().collect() });
        }
        let step = (arcs.len() / 12).max(1);
        for i in (0..arcs.len()).step_by(step) {
            let mut a = d.a.clone();
            let _ = a.remove(&arcs[i]);
            out.push(Dg { v: d.v.clone(), a });
        }
    }
    out
}

pub fn shrink_top(op: &TOp) -> Vec<TOp> {
    match op {
        TOp::ListComplement { d } => shrink_dg(d).into_iter().map(|d| TOp::ListComplement { d }).collect(),
        TOp::ListDegreeSequence { d } => {
            shrink_dg(d).into_iter().map(|d| TOp::ListDegreeSequence { d }).collect()
        }
        TOp::ListIsSemicomplete { d } => {
            shrink_dg(d).into_iter().map(|d| TOp::ListIsSemicomplete { d }).collect()
        }
        TOp::ListIsSemicompleteDense { order, seed } => shrink_usize(*order, 2)
            .into_iter()
            .map(|order| TOp::ListIsSemicompleteDense { order, seed: *seed })
            .collect(),
        TOp::ListComplete { order } => {
            shrink_usize(*order, 1).into_iter().map(|order| TOp::ListComplete { order }).collect()
        }
        TOp::ListUnion { d, e } => {
            let mut v: Vec<TOp> =
                shrink_dg(d).into_iter().map(|d2| TOp::ListUnion { d: d2, e: e.clone() }).collect();
            v.extend(shrink_dg(e).into_iter().map(|e2| TOp::ListUnion { d: d.clone(), e: e2 }));
            v
        }
        TOp::MapUnion { d, e } => {
            let mut v: Vec<TOp> =
                shrink_dg(d).into_iter().map(|d2| TOp::MapUnion { d: d2, e: e.clone() }).collect();
            v.extend(shrink_dg(e).into_iter().map(|e2| TOp::MapUnion { d: d.clone(), e: e2 }));
            v
        }
        TOp::MapErdosRenyi { order, p_bits, p, seed } => shrink_usize(*order, 1)
            .into_iter()
            .map(|order| TOp::MapErdosRenyi { order, p_bits: *p_bits, p: p.clone(), seed: *seed })
            .chain((*seed > 0).then(|| TOp::MapErdosRenyi {
                order: *order,
                p_bits: *p_bits,
                p: p.clone(),
                seed: 0,
            }))
            .collect(),
        TOp::MapRandomTournament { order, seed } => shrink_usize(*order, 1)
            .into_iter()
            .map(|order| TOp::MapRandomTournament { order, seed: *seed })
            .chain((*seed > 0).then_some(TOp::MapRandomTournament { order: *order, seed: 0 }))
            .collect(),
    }
}
