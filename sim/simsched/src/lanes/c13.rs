//! C13, lane L — "repeating a call does not grow the heap". Every program of
//! the shared catalogue (sim/vprog) that returns normally is executed three
//! times, each time inside its own scheduled execution (the threaded
//! operations under the program's CPU count and a drawn scheduler); the bytes
//! live on the executing OS thread after the second and after the third
//! execution must be equal (the first is a warm-up for lazily initialised
//! state). The undefined-behaviour half of C13 is lane U (Miri, `simmem`).

use super::draw_sched;
use crate::core::{Lane, Scenario, Stats, Tier, Violation};
use crate::exec::{run_exec, Conf};
use crate::ledger;
use serde::{Deserialize, Serialize};
use std::sync::OnceLock;
use vmodel::rng::{digest, Rng};
use vprog::{Outcome, Prog};

pub struct C13;

#[derive(Clone, Debug, Serialize, Deserialize)]
pub struct Body {
    /// program name: entry/repr/shape/x/y/cbN/tN
    pub prog: String,
}

/// The catalogue; with VERIF_C13_SAFE=1 (set by the driver when lane U has just found undefined
/// behaviour on this tree) only the programs with in-range arguments, because executing undefined
/// behaviour natively corrupts the heap of the worker and nothing after it can be trusted.
fn catalogue() -> &'static Vec<Prog> {
    static CAT: OnceLock<Vec<Prog>> = OnceLock::new();
    CAT.get_or_init(|| {
        let all = vprog::catalogue();
        if std::env::var("VERIF_C13_SAFE").is_ok_and(|v| v == "1") {
            all.into_iter().filter(vprog::is_safe_subset).collect()
        } else {
            all
        }
    })
}

fn entry_and_class(p: &Prog) -> (String, String) {
    (p.entry_point(), p.input_class())
}

impl Lane for C13 {
    const ID: &'static str = "C13";
    type Body = Body;
    const AMBIENT: bool = false;

    fn draw(rng: &mut Rng, _tier: Tier, run_index: u64) -> Scenario<Body> {
        let cat = catalogue();
        let p = &cat[(run_index % cat.len() as u64) as usize];
        let cpu = if p.t > 0 { Some(p.t as usize) } else { Some(1) };
        let conf = Conf { cpu, sched: draw_sched(rng, 6), trace: None };
        Scenario { body: Body { prog: p.name() }, confs: vec![conf] }
    }

    fn run(sc: &Scenario<Body>, st: &mut Stats) -> Vec<Violation> {
        let mut vs = Vec::new();
        let Some(p) = vprog::find(&sc.body.prog) else {
            st.bump("harness/unknown_program");
            return vs;
        };
        let (entry, class_s) = entry_and_class(&p);
        let conf = &sc.confs[0];
        // bytes left behind by each execution, measured tightly around it (no harness allocation in
        // between: statistics are updated after the three executions)
        let mut left: Vec<i64> = Vec::with_capacity(3);
        let mut outcomes = Vec::with_capacity(3);
        let mut logs = Vec::with_capacity(3);
        for _ in 0..3 {
            let p2 = p.clone();
            let before = ledger::snapshot().live;
            let rep = run_exec(conf, move || vprog::run(&p2));
            let (value, failure, log) = (rep.value, rep.failure, rep.log);
            // the decision list and the failure text belong to the harness: take them out of the balance
            let summary = (log.decisions.len(), log.choice_points, log.switches, log.preemptions, log.max_task, log.worker_after_return, log.stalled_decisions);
            let fail = failure.map(|f| (f.class(), f.message().to_string()));
            drop(log);
            let after = ledger::snapshot().live;
            let fail_bytes = fail.as_ref().map_or(0, |(_, m)| m.capacity() as i64);
            left.push(after - before - fail_bytes);
            outcomes.push(value);
            logs.push((summary, fail));
        }
        for (summary, fail) in &logs {
            let log = crate::sched::ExecLog {
                decisions: vec![0; summary.0],
                choice_points: summary.1,
                switches: summary.2,
                preemptions: summary.3,
                max_task: summary.4,
                worker_after_return: summary.5,
                stalled_decisions: summary.6,
                ..Default::default()
            };
            st.exec(conf, &log);
            if let Some((class, msg)) = fail {
                vs.push(Violation::new(class, &entry, &class_s, msg.clone()));
                return vs;
            }
            if summary.5 {
                st.bump("note/worker_still_runnable_after_return");
            }
        }
        match (&outcomes[1], &outcomes[2]) {
            (Some(Outcome::Returned(a)), Some(Outcome::Returned(b))) => {
                st.bump("outcome/returned");
                if a != b {
                    // not a C13 matter (answers are not judged here), but worth counting
                    st.bump("probe/result_differs_between_repetitions");
                }
                if p.t >= 2 {
                    st.bump("probe/threaded_program_with_2_or_more_cpus");
                }
                st.case(&[digest(sc.body.prog.as_bytes())]);
                if left[1] != 0 || left[2] != 0 {
                    vs.push(Violation::new(
                        "heap_growth",
                        &entry,
                        &class_s,
                        format!("program {}: the 2nd execution left {} bytes allocated, the 3rd {} (the 1st, warm-up, {})", sc.body.prog, left[1], left[2], left[0]),
                    ));
                }
            }
            _ => {
                // ended in a panic: Rust permits leaking on unwind and C13 does not say otherwise
                st.bump("outcome/panicked");
                if p.cb > 0 {
                    st.bump("fault/callback_panic");
                }
                if !p.x.in_range() || !p.y.in_range() {
                    st.bump("fault/bad_vertex_id");
                }
            }
        }
        vs
    }

    fn shrink(_body: &Body) -> Vec<Body> {
        // a program is already minimal: one entry point, one small digraph, one argument class
        Vec::new()
    }
}
