//! C12 — structural predicates decide exactly their mathematical definitions.

use super::c17::{draw_giant, draw_order, draw_order_tail, run_top};
use super::draw_sched;
use crate::core::{Lane, Scenario, Stats, Tier, Violation};
use crate::exec::Conf;
use crate::ops::{build_edge_list, build_list, build_map, build_matrix, build_weighted_isize, TOp};
use crate::reps::{guard, input_class};
use crate::shrink::shrink_dg;
use graaf::{
    IsBalanced, IsComplete, IsOriented, IsRegular, IsSemicomplete, IsSimple, IsSpanningSubdigraph, IsSubdigraph,
    IsSuperdigraph, IsSymmetric, IsTournament,
};
use serde::{Deserialize, Serialize};
use std::collections::BTreeSet;
use vmodel::dg::{Dg, WDg};
use vmodel::gen::{
    draw_cpu, draw_density, near_semicomplete, random_dg, random_tournament, random_vertex_set, tournament_with_paired_defects, tournament_with_row_defects,
};
use vmodel::rng::Rng;

pub struct C12;

#[derive(Clone, Debug, Serialize, Deserialize)]
pub struct Body {
    pub h: Dg,
    pub d: Dg,
}

fn pairs(n: usize) -> Vec<(usize, usize)> {
    (0..n).flat_map(|u| (0..n).filter(move |&w| w != u).map(move |w| (u, w))).collect()
}

/// Digraphs at the boundary of some predicate.
pub fn draw_near_miss(rng: &mut Rng, n: usize) -> Dg {
    let all = pairs(n);
    match rng.below(10) {
        0 => {
            // complete minus 0..=2 arcs
            let mut d = Dg::complete(n);
            if !all.is_empty() {
                for _ in 0..rng.below(3) {
                    let a = match rng.below(3) {
                        0 => all[0],
                        1 => all[all.len() - 1],
                        _ => *rng.pick(&all),
                    };
                    let _ = d.a.remove(&a);
                }
            }
            d
        }
        1 => near_semicomplete(rng, n, true),
        2 => near_semicomplete(rng, n, false),
        3 => random_tournament(rng, n),
        4 => {
            // circulant (k-regular) digraph, optionally with one arc moved
            let mut d = Dg::empty(n);
            if n > 1 {
                let k = rng.range(0, (n - 1).min(4));
                for u in 0..n {
                    for j in 1..=k {
                        let _ = d.a.insert((u, (u + j) % n));
                    }
                }
                if rng.chance(1, 2) && !d.a.is_empty() {
                    let arcs: Vec<_> = d.a.iter().copied().collect();
                    let (u, w) = *rng.pick(&arcs);
                    let _ = d.a.remove(&(u, w));
                    if rng.chance(1, 2) {
                        let x = rng.below(n);
                        if x != u {
                            let _ = d.a.insert((u, x));
                        }
                    }
                }
            }
            d
        }
        5 => {
            // symmetric, optionally one reverse arc removed
            let mut d = Dg::empty(n);
            let p = draw_density(rng);
            for &(u, w) in &all {
                if u < w && rng.below(1000) < p {
                    let _ = d.a.insert((u, w));
                    let _ = d.a.insert((w, u));
                }
            }
            if rng.chance(1, 2) && !d.a.is_empty() {
                let arcs: Vec<_> = d.a.iter().copied().collect();
                let _ = d.a.remove(rng.pick(&arcs));
            }
            d
        }
        6 => {
            // oriented, optionally one reverse arc added
            let mut d = Dg::empty(n);
            let p = draw_density(rng);
            for &(u, w) in &all {
                if u < w && rng.below(1000) < p {
                    let _ = if rng.chance(1, 2) { d.a.insert((u, w)) } else { d.a.insert((w, u)) };
                }
            }
            if rng.chance(1, 2) && !d.a.is_empty() {
                let arcs: Vec<_> = d.a.iter().copied().collect();
                let (u, w) = *rng.pick(&arcs);
                let _ = d.a.insert((w, u));
            }
            d
        }
        7 => {
            // balanced: union of circuits through random vertex subsets, optionally nudged
            let mut d = Dg::empty(n);
            if n > 1 {
                for _ in 0..rng.range(1, 3) {
                    let mut vs: Vec<usize> = (0..n).collect();
                    rng.shuffle(&mut vs);
                    vs.truncate(rng.range(2, n));
                    for i in 0..vs.len() {
                        let _ = d.a.insert((vs[i], vs[(i + 1) % vs.len()]));
                    }
                }
                if rng.chance(1, 3) {
                    let _ = d.a.insert(*rng.pick(&all));
                }
            }
            d
        }
        _ => {
            let p = draw_density(rng);
            random_dg(rng, n, p)
        }
    }
}

/// Rename the vertices by a strictly increasing map onto `ids`.
pub fn relabel(d: &Dg, ids: &BTreeSet<usize>) -> Dg {
    let ids: Vec<usize> = ids.iter().copied().collect();
    assert_eq!(ids.len(), d.order());
    let src: Vec<usize> = d.v.iter().copied().collect();
    let f = |x: usize| ids[src.binary_search(&x).unwrap()];
    Dg::from_parts(ids.iter().copied(), d.a.iter().map(|&(u, w)| (f(u), f(w))))
}

/// H derived from D so that exactly one of "V(H) subset V(D)", "A(H) subset A(D)",
/// "V(H) = V(D)" tends to fail - or none.
pub fn draw_h(rng: &mut Rng, d: &Dg) -> Dg {
    let n = d.order();
    let contiguous = d.is_contiguous();
    let verts: Vec<usize> = d.v.iter().copied().collect();
    if !contiguous && rng.chance(1, 4) {
        // H on the contiguous ids 0..k (some of them isolated, some of them not vertices of D) with arcs taken
        // from D: "V(H) subset of V(D)" then fails or holds through vertices that carry no arc at all
        let k = rng.range(1, n + 1);
        let mut h = Dg::empty(k);
        for &(u, w) in &d.a {
            if u < k && w < k && rng.chance(3, 4) {
                let _ = h.a.insert((u, w));
            }
        }
        return h;
    }
    match rng.below(8) {
        0 => d.clone(),
        1 => {
            // fewer arcs, same vertices (spanning subdigraph)
            let mut h = d.clone();
            h.a = d.a.iter().copied().filter(|_| rng.chance(2, 3)).collect();
            h
        }
        2 => {
            // fewer vertices (subdigraph, not spanning)
            let keep: BTreeSet<usize> = if contiguous {
                (0..rng.range(1, n)).collect()
            } else {
                let mut k: BTreeSet<usize> = verts.iter().copied().filter(|_| rng.chance(2, 3)).collect();
                if k.is_empty() {
                    let _ = k.insert(verts[0]);
                }
                k
            };
            let mut h = d.induced(&keep);
            h.a = h.a.iter().copied().filter(|_| rng.chance(3, 4)).collect();
            h
        }
        3 => {
            // one extra arc that D lacks
            let mut h = d.clone();
            let missing: Vec<(usize, usize)> = if n > 300 {
                let (u, w) = (verts[rng.below(n)], verts[rng.below(n)]);
                if u != w && !d.a.contains(&(u, w)) {
                    vec![(u, w)]
                } else {
                    vec![]
                }
            } else {
                verts
                    .iter()
                    .flat_map(|&u| verts.iter().map(move |&w| (u, w)))
                    .filter(|&(u, w)| u != w && !d.a.contains(&(u, w)))
                    .collect()
            };
            if !missing.is_empty() {
                let _ = h.a.insert(*rng.pick(&missing));
            }
            h
        }
        4 => {
            // one extra vertex (isolated, or with an arc)
            let mut h = d.clone();
            let x = if contiguous {
                n
            } else if verts[n - 1] < usize::MAX - 4 {
                verts[n - 1] + 1 + rng.below(3)
            } else {
                (0..).find(|x| !d.v.contains(x)).unwrap()
            };
            let _ = h.v.insert(x);
            if rng.chance(1, 2) {
                let _ = h.a.insert((verts[0], x));
            }
            h
        }
        5 => {
            // same arcs, D has one more vertex: H = D minus its last vertex when that one is isolated
            let last = verts[n - 1];
            let keep: BTreeSet<usize> = verts.iter().copied().filter(|&x| x != last).collect();
            if keep.is_empty() {
                d.clone()
            } else {
                d.induced(&keep)
            }
        }
        6 => d.converse(),
        _ => {
            let m = if contiguous { rng.range(1, n + 2) } else { n };
            let p = if n > 300 { 2 } else { draw_density(rng) };
            let r = random_dg(rng, m, p);
            if contiguous || m != n {
                r
            } else {
                relabel(&r, &d.v)
            }
        }
    }
}

struct Exp {
    complete: bool,
    semicomplete: bool,
    tournament: bool,
    regular: bool,
    balanced: bool,
    symmetric: bool,
    oriented: bool,
    sub: bool,
    sup: bool,
    spanning: bool,
}

macro_rules! check_preds {
    ($st:expr, $vs:expr, $name:expr, $class:expr, $exp:expr, $g:expr, $hh:expr) => {{
        let g = $g;
        let hh = $hh;
        let mut one = |pred: &str, got: Result<bool, String>, want: bool| {
            $st.sequential_checks += 1;
            let op = format!("{}::{}", $name, pred);
            match got {
                Err(m) => $vs.push(Violation::new("unexpected_panic", &op, $class, format!("panicked: {m}"))),
                Ok(b) if b != want => $vs.push(Violation::new(
                    "wrong_result",
                    &op,
                    $class,
                    format!("returned {b}, the definition says {want}"),
                )),
                Ok(_) => {}
            }
        };
        one("is_complete", guard(|| g.is_complete()), $exp.complete);
        one("is_semicomplete", guard(|| g.is_semicomplete()), $exp.semicomplete);
        one("is_tournament", guard(|| g.is_tournament()), $exp.tournament);
        one("is_regular", guard(|| g.is_regular()), $exp.regular);
        one("is_balanced", guard(|| g.is_balanced()), $exp.balanced);
        one("is_symmetric", guard(|| g.is_symmetric()), $exp.symmetric);
        one("is_oriented", guard(|| g.is_oriented()), $exp.oriented);
        one("is_simple", guard(|| g.is_simple()), true);
        one("is_subdigraph", guard(|| hh.is_subdigraph(&g)), $exp.sub);
        one("is_superdigraph", guard(|| g.is_superdigraph(&hh)), $exp.sub);
        one("is_superdigraph", guard(|| hh.is_superdigraph(&g)), $exp.sup);
        one("is_spanning_subdigraph", guard(|| hh.is_spanning_subdigraph(&g)), $exp.spanning);
    }};
}

/// A dense digraph of order `n` at the tournament boundary whose defects (if any) all lie in one row.
fn st_row(rng: &mut Rng, n: usize) -> Dg {
    let r = match rng.below(6) {
        0 => 0,
        1 => n - 1,
        2 | 3 => (n - 1) / 2,
        4 => n / 2,
        _ => rng.below(n),
    };
    match rng.below(6) {
        0 => random_tournament(rng, n),
        1 => {
            // semicomplete, not a tournament: one doubled pair in row r
            let mut g = random_tournament(rng, n);
            let v = (r + 1 + rng.below(n - 1)) % n;
            let _ = g.a.insert((r, v));
            let _ = g.a.insert((v, r));
            g
        }
        _ => {
            let above = rng.chance(1, 2);
            tournament_with_row_defects(rng, n, r, above)
        }
    }
}

impl Lane for C12 {
    const ID: &'static str = "C12";
    type Body = Body;

    fn draw(rng: &mut Rng, tier: Tier, _run_index: u64) -> Scenario<Body> {
        let max = match tier {
            Tier::Quick => 24,
            Tier::Thorough => 48,
        };
        let max = if rng.chance(1, 5) { max } else { max.min(16) };
        let dense_giant = rng.chance(1, 300);
        let n = if dense_giant {
            draw_giant(rng, 769)
        } else if rng.chance(1, 250) {
            // rows of the bit matrix spanning nine and more words
            *rng.pick(&[577, 578, 640, 641, 704, 705, 1000, 1024, 1088])
        } else if rng.chance(1, 60) {
            // rows of two to four words, any residue
            rng.range(65, 200)
        } else if rng.chance(1, 40) {
            // bit-matrix rows that start on a word boundary
            *rng.pick(&[64, 128, 192, 256])
        } else if rng.chance(1, 3) {
            draw_order_tail(rng, max).min(260)
        } else {
            draw_order(rng, max)
        };
        let mut d = if dense_giant {
            // giant *and* dense, around the tournament / semicomplete boundary: every defect in one row
            st_row(rng, n)
        } else if n > 300 {
            // giants stay sparse and structured (the model's predicates are quadratic in the arc count)
            let mut g = match rng.below(5) {
                0 => Dg::circuit(n),
                1 => Dg::cycle(n),
                2 => Dg::star(n),
                3 => Dg::empty(n),
                _ => {
                    let k = rng.range(1, 5);
                    let mut c = Dg::empty(n);
                    for u in 0..n {
                        for j in 1..=k {
                            let _ = c.a.insert((u, (u + j) % n));
                        }
                    }
                    c
                }
            };
            // optionally one nudge at a structured position
            if rng.chance(1, 2) {
                let k = rng.range(5, 10);
                let u = ((1usize << k) + rng.below(3)).saturating_sub(1).min(n - 2);
                let w = if rng.chance(1, 2) { u + 1 } else { rng.below(n) };
                if u != w && !g.a.remove(&(u, w)) {
                    let _ = g.a.insert((u, w));
                }
            }
            g
        } else if n >= 3 && (n % 64 == 0 && rng.chance(1, 2) || n > 65 && rng.chance(1, 4) || rng.chance(1, 30)) {
            // size-preserving defects confined to one residue class of the column index; with rows longer than
            // a word, the class of the row's own index (distance a multiple of 64) half of the time
            let ds: Vec<usize> = [1usize, 2, 8, 16, 32, 64, 128, 192].iter().copied().filter(|&x| x < n).collect();
            let words: Vec<usize> = ds.iter().copied().filter(|x| x % 64 == 0 && x + 2 <= n).collect();
            let dist = if !words.is_empty() && rng.chance(1, 2) { *rng.pick(&words) } else { *rng.pick(&ds) };
            let k = rng.range(1, 2);
            tournament_with_paired_defects(rng, n, dist, k)
        } else {
            draw_near_miss(rng, n)
        };
        if rng.chance(1, 3) && !dense_giant {
            let ids = random_vertex_set(rng, n, 3 * max);
            d = relabel(&d, &ids);
        }
        let h = draw_h(rng, &d);
        let nconf = match tier {
            Tier::Quick => 6,
            Tier::Thorough => 12,
        };
        let mut confs = vec![
            Conf { cpu: Some(1), sched: draw_sched(rng, n), trace: None },
            Conf { cpu: Some(2 + rng.below(3)), sched: draw_sched(rng, n), trace: None },
        ];
        while confs.len() < nconf {
            confs.push(Conf { cpu: draw_cpu(rng, n), sched: draw_sched(rng, n), trace: None });
        }
        if dense_giant {
            // one flag load per vertex pair: keep the giants to two scheduled executions
            confs.truncate(2);
        }
        Scenario { body: Body { h, d }, confs }
    }

    fn run(sc: &Scenario<Body>, st: &mut Stats) -> Vec<Violation> {
        let Body { h, d } = &sc.body;
        let mut vs = Vec::new();
        let both_contig = d.is_contiguous() && h.is_contiguous();
        let class = if both_contig { "contiguous" } else { "noncontiguous" };
        st.bump(&format!("input/{class}"));
        let exp = Exp {
            complete: d.is_complete(),
            semicomplete: d.is_semicomplete(),
            tournament: d.is_tournament(),
            regular: d.is_regular(),
            balanced: d.is_balanced(),
            symmetric: d.is_symmetric(),
            oriented: d.is_oriented(),
            sub: h.is_subdigraph(d),
            sup: h.is_superdigraph(d),
            spanning: h.is_spanning_subdigraph(d),
        };
        for (k, b) in [
            ("complete", exp.complete), ("semicomplete", exp.semicomplete), ("tournament", exp.tournament),
            ("regular", exp.regular), ("balanced", exp.balanced), ("symmetric", exp.symmetric),
            ("oriented", exp.oriented), ("subdigraph", exp.sub), ("superdigraph", exp.sup), ("spanning", exp.spanning),
        ] {
            st.bump(&format!("truth/{k}={b}"));
        }
        let n = d.order();
        if n >= 2 {
            st.case(&[vmodel::rng::digest(serde_json::to_string(&sc.body).unwrap().as_bytes())]);
        }
        if n >= 2 && d.size() >= n * (n - 1) / 2 && !exp.semicomplete {
            st.bump("probe/size_shortcut_passes_but_not_semicomplete");
        }
        if n >= 2 && d.size() == n * (n - 1) / 2 && !exp.tournament {
            st.bump("probe/size_shortcut_passes_but_not_tournament");
        }
        if d.is_contiguous() {
            vs.extend(run_top(&TOp::ListIsSemicomplete { d: d.clone() }, &sc.confs, st, "contiguous"));
        }
        match guard(|| (build_map(d), build_map(h))) {
            Ok((g, hh)) => check_preds!(st, vs, "AdjacencyMap", input_class(d), exp, g, hh),
            Err(m) => vs.push(Violation::new("unexpected_panic", "AdjacencyMap::build", class, m)),
        }
        let fixed = if both_contig {
            guard(|| (build_list(d), build_list(h), build_matrix(d), build_matrix(h), build_edge_list(d), build_edge_list(h)))
        } else {
            Err(String::new())
        };
        if let (true, Err(m)) = (both_contig, &fixed) {
            vs.push(Violation::new("unexpected_panic", "build", "contiguous", format!("building the digraphs through the public API panicked: {m}")));
        }
        if let Ok((g, hh, mx_d, mx_h, el_d, el_h)) = fixed {
            // AdjacencyList::is_semicomplete is threaded: it is judged by run_top above, inside
            // scheduled executions; the sequential predicates of the list are checked here
            {
                let mut one = |pred: &str, got: Result<bool, String>, want: bool| {
                    st.sequential_checks += 1;
                    let op = format!("AdjacencyList::{pred}");
                    match got {
                        Err(m) => vs.push(Violation::new("unexpected_panic", &op, "contiguous", format!("panicked: {m}"))),
                        Ok(b) if b != want => vs.push(Violation::new("wrong_result", &op, "contiguous", format!("returned {b}, the definition says {want}"))),
                        Ok(_) => {}
                    }
                };
                one("is_complete", guard(|| g.is_complete()), exp.complete);
                one("is_tournament", guard(|| g.is_tournament()), exp.tournament);
                one("is_regular", guard(|| g.is_regular()), exp.regular);
                one("is_balanced", guard(|| g.is_balanced()), exp.balanced);
                one("is_symmetric", guard(|| g.is_symmetric()), exp.symmetric);
                one("is_oriented", guard(|| g.is_oriented()), exp.oriented);
                one("is_simple", guard(|| g.is_simple()), true);
                one("is_subdigraph", guard(|| hh.is_subdigraph(&g)), exp.sub);
                one("is_superdigraph", guard(|| g.is_superdigraph(&hh)), exp.sub);
                one("is_superdigraph", guard(|| hh.is_superdigraph(&g)), exp.sup);
                one("is_spanning_subdigraph", guard(|| hh.is_spanning_subdigraph(&g)), exp.spanning);
            }
            // Which predicates start workers is a property of the tree under test. Each unary predicate of the
            // list is executed once more as a scheduled execution of its own; if it started a worker there, it is
            // judged under every configuration of the scenario (CPU counts, schedulers, concurrent callers do not
            // apply): one ambient schedule per scenario is too little for an interleaving-dependent verdict.
            if n <= 80 {
                let ga = std::sync::Arc::new(g.clone());
                let preds: [(&str, fn(&graaf::AdjacencyList) -> bool, bool); 6] = [
                    ("is_complete", |x| x.is_complete(), exp.complete),
                    ("is_tournament", |x| x.is_tournament(), exp.tournament),
                    ("is_regular", |x| x.is_regular(), exp.regular),
                    ("is_balanced", |x| x.is_balanced(), exp.balanced),
                    ("is_symmetric", |x| x.is_symmetric(), exp.symmetric),
                    ("is_oriented", |x| x.is_oriented(), exp.oriented),
                ];
                for (pred, f, want) in preds {
                    for (ci, conf) in sc.confs.iter().enumerate() {
                        let gb = std::sync::Arc::clone(&ga);
                        let rep = crate::exec::run_exec(conf, move || f(&gb));
                        if rep.log.max_task == 0 && rep.failure.is_none() && rep.value == Some(want) {
                            // no worker in this configuration (sequential today, or one CPU): judged above
                            continue;
                        }
                        st.exec(conf, &rep.log);
                        st.bump("probe/predicate_started_workers");
                        let op = format!("AdjacencyList::{pred}");
                        if let Some(fl) = &rep.failure {
                            vs.push(Violation::new(fl.class(), &op, "contiguous", format!("configuration #{ci}: {}", fl.message())));
                        } else if rep.value != Some(want) {
                            vs.push(Violation::new("wrong_result", &op, "contiguous",
                                format!("configuration #{ci} (cpu={:?}): returned {:?}, the definition says {want}", conf.cpu, rep.value)));
                        }
                    }
                }
            }
            check_preds!(st, vs, "AdjacencyMatrix", "contiguous", exp, mx_d, mx_h);
            check_preds!(st, vs, "EdgeList", "contiguous", exp, el_d, el_h);
            let w = |x: &Dg| WDg { v: x.v.clone(), a: x.a.iter().map(|&(u, v)| ((u, v), 1 + ((u * 7 + v) % 5) as i64)).collect() };
            if let Ok((wd, wh)) = guard(|| (build_weighted_isize(&w(d)), build_weighted_isize(&w(h)))) {
                check_preds!(st, vs, "AdjacencyListWeighted", "contiguous", exp, wd, wh);
            }
        }
        vs
    }

    fn shrink(body: &Body) -> Vec<Body> {
        let mut out = Vec::new();
        for d in shrink_dg(&body.d) {
            out.push(Body { h: body.h.clone(), d });
        }
        for h in shrink_dg(&body.h) {
            out.push(Body { h, d: body.d.clone() });
        }
        // shrink both together (keeps relations such as H = D)
        for d in shrink_dg(&body.d) {
            out.push(Body { h: d.clone(), d });
        }
        out
    }
}
