//! C14 — deterministic generators produce exactly their defining arc sets at
//! every order. The (generator, parameter) grid is enumerated, not sampled;
//! what is sampled is the schedule/CPU-count dimension of the one threaded
//! generator, `AdjacencyList::complete`.

use super::c17::run_top;
use super::{draw_cpus, draw_sched};
use crate::core::{Lane, Scenario, Stats, Tier, Violation};
use crate::exec::{run_exec, with_cpu, Conf};
use crate::ops::{diff_dg, observe, TOp};
use crate::reps::{guard, Rep};
use graaf::{
    AdjacencyList, AdjacencyMap, AdjacencyMatrix, Biclique, Circuit, Complete, Cycle, EdgeList, Empty, Path, Star,
    Wheel,
};
use serde::{Deserialize, Serialize};
use vmodel::dg::Dg;
use vmodel::gen::draw_cpu;
use vmodel::rng::Rng;

pub struct C14;

#[derive(Clone, Debug, Serialize, Deserialize, PartialEq, Eq)]
pub struct Body {
    pub gen: String,
    /// order, or m for biclique
    pub a: usize,
    /// n for biclique, unused otherwise
    pub b: usize,
    /// an earlier call of the same generator with these other (admissible) parameters is made first and its
    /// result dropped: a generator is a function of its arguments, whatever the process did before (state
    /// kept in a static or thread-local between calls is what this reaches)
    /// (one entry per CPU count at which the generator is called, used cyclically)
    #[serde(default, skip_serializing_if = "Vec::is_empty")]
    pub pre: Vec<(usize, usize)>,
}

pub const GENS: [&str; 7] = ["empty", "complete", "circuit", "cycle", "path", "star", "wheel"];

pub fn max_order(tier: Tier) -> usize {
    match tier {
        Tier::Quick => 70,
        Tier::Thorough => 136,
    }
}

/// The enumerated grid.
pub fn grid(tier: Tier) -> Vec<Body> {
    let mut g = Vec::new();
    for gen in GENS {
        for order in 0..=max_order(tier) {
            g.push(Body { gen: gen.to_string(), a: order, b: 0, pre: Vec::new() });
        }
    }
    // the threaded generator gets eight more cells per order: each cell draws its own CPU counts and
    // schedulers from the run's seed
    // far above the enumerated range: word-multiple and power-of-two orders and their neighbours, for the
    // generators whose output is linear in the order
    for gen in ["empty", "circuit", "cycle", "path", "star", "wheel"] {
        for order in [191, 192, 193, 255, 256, 257, 320, 384, 448, 511, 512, 513, 576, 640, 704, 1000, 1023, 1024, 1025] {
            g.push(Body { gen: gen.to_string(), a: order, b: 0, pre: Vec::new() });
        }
    }
    let complete_max = match tier {
        Tier::Quick => 260,
        Tier::Thorough => 400,
    };
    for _ in 0..8 {
        for order in 1..=complete_max {
            g.push(Body { gen: "complete".to_string(), a: order, b: 0, pre: Vec::new() });
        }
    }
    // every (m, n) with m + n <= 100 (quick) / 160 (thorough): runs longer than one 64-bit word of the
    // bit matrix, ending on and off word boundaries
    let lim = match tier {
        Tier::Quick => 100,
        Tier::Thorough => 160,
    };
    for m in 0..=lim {
        for n in 0..=(lim - m) {
            g.push(Body { gen: "biclique".into(), a: m, b: n, pre: Vec::new() });
        }
    }
    // far above the enumerated range, like the other generators: totals on and around word multiples and
    // powers of two (and the odd ones between), split evenly, unevenly and with a part of one word
    for total in [177usize, 178, 179, 181, 191, 192, 193, 194, 209, 255, 256, 257, 320, 384, 511, 512, 513] {
        let mut ms = vec![1, 2, 63, 64, 65, total / 3, total / 2, total.div_ceil(2), total - 64, total - 1];
        ms.sort_unstable();
        ms.dedup();
        for m in ms {
            if m >= 1 && m < total {
                g.push(Body { gen: "biclique".into(), a: m, b: total - m, pre: Vec::new() });
            }
        }
    }
    for gen in ["trivial", "claw", "utility"] {
        g.push(Body { gen: gen.into(), a: 0, b: 0, pre: Vec::new() });
    }
    g
}

pub fn admissible(b: &Body) -> bool {
    match b.gen.as_str() {
        "wheel" => b.a >= 4,
        "biclique" => b.a >= 1 && b.b >= 1,
        "trivial" | "claw" | "utility" => true,
        _ => b.a >= 1,
    }
}

pub fn closed_form(b: &Body) -> Dg {
    match b.gen.as_str() {
        "empty" => Dg::empty(b.a),
        "complete" => Dg::complete(b.a),
        "circuit" => Dg::circuit(b.a),
        "cycle" => Dg::cycle(b.a),
        "path" => Dg::path(b.a),
        "star" => Dg::star(b.a),
        "wheel" => Dg::wheel(b.a),
        "biclique" => Dg::biclique(b.a, b.b),
        "trivial" => Dg::empty(1),
        "claw" => Dg::biclique(1, 3),
        "utility" => Dg::biclique(3, 3),
        other => panic!("unknown generator {other}"),
    }
}

fn call<R>(b: &Body) -> R
where
    R: Rep + Empty + Complete + Circuit + Cycle + Path + Star + Wheel + Biclique,
{
    match b.gen.as_str() {
        "empty" => R::empty(b.a),
        "complete" => R::complete(b.a),
        "circuit" => R::circuit(b.a),
        "cycle" => R::cycle(b.a),
        "path" => R::path(b.a),
        "star" => R::star(b.a),
        "wheel" => R::wheel(b.a),
        "biclique" => R::biclique(b.a, b.b),
        "trivial" => R::trivial(),
        "claw" => R::claw(),
        "utility" => R::utility(),
        other => panic!("unknown generator {other}"),
    }
}

fn check_rep<R>(b: &Body, k: usize, st: &mut Stats, vs: &mut Vec<Violation>)
where
    R: Rep + Empty + Complete + Circuit + Cycle + Path + Star + Wheel + Biclique,
{
    st.sequential_checks += 1;
    let name = format!("{}::{}", R::NAME, b.gen);
    if !b.pre.is_empty() {
        let (pa, pb) = b.pre[k % b.pre.len()];
        let earlier = Body { gen: b.gen.clone(), a: pa, b: pb, pre: Vec::new() };
        let _ = guard(|| call::<R>(&earlier).obs());
        st.bump("probe/earlier_call_with_other_parameters");
    }
    let got = guard(|| call::<R>(b).obs());
    if admissible(b) {
        let exp = closed_form(b);
        match got {
            Err(m) => vs.push(Violation::new("unexpected_panic", &name, "admissible", format!("{b:?} panicked: {m}"))),
            Ok(o) => match o.to_dg() {
                Err(why) => vs.push(Violation::new("malformed_result", &name, "admissible", format!("{b:?}: {why}"))),
                Ok(d) => {
                    if d != exp {
                        vs.push(Violation::new("wrong_result", &name, "admissible", format!("{b:?}: {}", diff_dg(&d, &exp))));
                    }
                }
            },
        }
    } else {
        st.bump("fault/inadmissible_parameter");
        if let Ok(o) = got {
            vs.push(Violation::new(
                "missing_panic",
                &name,
                "inadmissible",
                format!("{b:?} must panic but returned a digraph of order {}", o.order),
            ));
        }
    }
}

impl Lane for C14 {
    const ID: &'static str = "C14";
    type Body = Body;

    fn draw(rng: &mut Rng, tier: Tier, run_index: u64) -> Scenario<Body> {
        let g = grid(tier);
        let body = g[(run_index % g.len() as u64) as usize].clone();
        let mut confs = Vec::new();
        if body.gen == "complete" {
            match tier {
                Tier::Quick => {
                    for cpu in draw_cpus(rng, Tier::Quick, body.a.max(1)) {
                        confs.push(Conf { cpu, sched: draw_sched(rng, body.a.max(1)), trace: None });
                    }
                    // two more schedules at CPU counts that make the last chunk short
                    for _ in 0..2 {
                        let cpu = Some(rng.range(2, 16));
                        confs.push(Conf { cpu, sched: draw_sched(rng, body.a.max(1)), trace: None });
                    }
                }
                Tier::Thorough => {
                    for cpu in draw_cpus(rng, Tier::Thorough, body.a.max(1)) {
                        for _ in 0..2 {
                            confs.push(Conf { cpu, sched: draw_sched(rng, body.a.max(1)), trace: None });
                        }
                    }
                }
            }
        } else {
            // the sequential generators are called once per CPU count (the ambient execution schedules
            // whatever workers a generator may start): one CPU, the machine's 16, two drawn counts
            let rows = (body.a + body.b).max(1);
            for cpu in [Some(1), Some(16), Some(rng.range(2, 15)), draw_cpu(rng, rows)] {
                confs.push(Conf { cpu, sched: draw_sched(rng, 1), trace: None });
            }
        }
        let mut body = body;
        // VERIF_C14_NO_EARLIER_CALL=1: self-test switch (A/B runs; exercises the history replay of the driver)
        let no_pre = std::env::var("VERIF_C14_NO_EARLIER_CALL").is_ok_and(|v| v == "1");
        if body.gen != "complete" && admissible(&body) && body.a + body.b <= 300 && !no_pre {
            let floor = if body.gen == "wheel" { 4 } else { 1 };
            let a = body.a;
            for _ in 0..4 {
                if rng.chance(1, 4) {
                    continue;
                }
                let pa = match rng.below(7) {
                    0 => a.saturating_sub(1),
                    1 => a + 1,
                    2 => a.saturating_sub(2),
                    3 => a + 2,
                    4 => a / 2,
                    5 => (2 * a).min(300),
                    _ => rng.range(1, a + 8),
                }
                .max(floor);
                let pb = if body.gen == "biclique" { if rng.chance(1, 2) { body.b } else { rng.range(1, body.b + 3) } } else { 0 };
                if (pa, pb) != (body.a, body.b) {
                    body.pre.push((pa, pb));
                }
            }
        }
        Scenario { body, confs }
    }

    fn run(sc: &Scenario<Body>, st: &mut Stats) -> Vec<Violation> {
        let b = &sc.body;
        let mut vs = Vec::new();
        st.bump(&format!("gen/{}", b.gen));
        if b.gen == "complete" {
            // AdjacencyList::complete is threaded: scheduled executions under every configuration
            if admissible(b) {
                vs.extend(run_top(&TOp::ListComplete { order: b.a }, &sc.confs, st, "admissible"));
            } else {
                st.bump("fault/inadmissible_parameter");
                let order = b.a;
                let rep = run_exec(&sc.confs[0], move || observe(&AdjacencyList::complete(order)));
                st.exec(&sc.confs[0], &rep.log);
                if let Some(o) = rep.value {
                    vs.push(Violation::new("missing_panic", "AdjacencyList::complete", "inadmissible",
                        format!("order {order} must panic but returned a digraph of order {}", o.order)));
                }
            }
        }
        let mut seen = Vec::new();
        for (k, conf) in sc.confs.iter().enumerate() {
            if seen.contains(&conf.cpu) || (b.gen == "complete" && !seen.is_empty()) {
                continue;
            }
            seen.push(conf.cpu);
            with_cpu(conf.cpu, || {
                if b.gen != "complete" {
                    check_rep::<AdjacencyList>(b, k, st, &mut vs);
                }
                check_rep::<AdjacencyMap>(b, k, st, &mut vs);
                check_rep::<AdjacencyMatrix>(b, k, st, &mut vs);
                check_rep::<EdgeList>(b, k, st, &mut vs);
            });
            if !vs.is_empty() {
                break;
            }
        }
        // distinct non-trivial cases of the sequential part: the grid cell itself
        if b.gen != "complete" && admissible(b) && closed_form(b).size() > 0 {
            st.case(&[vmodel::rng::digest(serde_json::to_string(b).unwrap().as_bytes())]);
        }
        if b.gen == "biclique" && (b.a > 64 || b.b > 64) {
            st.bump("probe/biclique_part_longer_than_one_word");
        }
        if b.a > 64 || (b.gen == "biclique" && b.a + b.b > 8) {
            st.bump("probe/matrix_beyond_one_word");
        }
        if b.a * b.a % 64 != 0 {
            st.bump("probe/order_squared_not_multiple_of_64");
        }
        vs
    }

    fn shrink(body: &Body) -> Vec<Body> {
        let mut out = Vec::new();
        if !body.pre.is_empty() {
            out.push(Body { pre: Vec::new(), ..body.clone() });
            if body.pre.len() > 1 {
                for k in 0..body.pre.len() {
                    out.push(Body { pre: vec![body.pre[k]], ..body.clone() });
                }
            }
        }
        for a in [body.a / 2, body.a.saturating_sub(1)] {
            if a < body.a {
                let c = Body { gen: body.gen.clone(), a, b: body.b, pre: body.pre.clone() };
                if admissible(&c) == admissible(body) {
                    out.push(c);
                }
            }
        }
        if body.b > 1 {
            out.push(Body { gen: body.gen.clone(), a: body.a, b: body.b - 1, pre: body.pre.clone() });
        }
        out
    }
}
