//! C11 — complement, converse, union and vertex filtering compute their set
//! definitions, in every representation, for every worker-thread count.

use super::c17::{draw_giant, draw_map_pair, draw_order, draw_order_tail, run_top};
use super::{draw_sched, relation_class};
use crate::core::{Lane, Scenario, Stats, Tier, Violation};
use crate::exec::Conf;
use crate::ops::{build_weighted_isize, build_weighted_usize, diff_dg, observe_wi, observe_wu, TOp};
use crate::reps::{guard, input_class, Rep};
use crate::shrink::shrink_dg;
use graaf::{
    AdjacencyList, AdjacencyMap, AdjacencyMatrix, Complement, Converse, EdgeList, FilterVertices, Union,
};
use serde::{Deserialize, Serialize};
use std::collections::BTreeSet;
use vmodel::dg::{Dg, WDg};
use vmodel::gen::{draw_cpu, draw_density, random_dg};
use vmodel::rng::{mix, Rng};

pub struct C11;

#[derive(Clone, Debug, Serialize, Deserialize)]
pub struct Body {
    pub d: Dg,
    pub e: Dg,
    /// vertices the filter predicate selects (may mention ids outside V)
    pub keep: BTreeSet<usize>,
    /// arc weights for the weighted converse are a fixed function of (wseed, u, v)
    pub wseed: u64,
}

pub fn weight_of(wseed: u64, u: usize, w: usize) -> i64 {
    (mix(&[wseed, u as u64, w as u64]) % 1000) as i64
}

fn check_built<R: Rep>(g: &R, d: &Dg, vs: &mut Vec<Violation>) -> bool {
    match g.obs().to_dg() {
        Ok(got) if &got == d => true,
        Ok(got) => {
            vs.push(Violation::new("builder_mismatch", &format!("{}::build", R::NAME), input_class(d),
                format!("digraph built through add_arc/remove_arc/filter_vertices differs from the model: {}", diff_dg(&got, d))));
            false
        }
        Err(why) => {
            vs.push(Violation::new("builder_mismatch", &format!("{}::build", R::NAME), input_class(d), why));
            false
        }
    }
}

/// A sequential unary operation D -> D' against its set definition.
pub fn seq_unary<R: Rep>(st: &mut Stats, vs: &mut Vec<Violation>, opname: &str, d: &Dg, exp: &Dg, f: impl Fn(&R) -> R) {
    st.sequential_checks += 1;
    let name = format!("{}::{opname}", R::NAME);
    let class = input_class(d);
    let g = match guard(|| R::build(d)) {
        Ok(g) => g,
        Err(m) => {
            vs.push(Violation::new("unexpected_panic", &format!("{}::build", R::NAME), class, m));
            return;
        }
    };
    if !check_built(&g, d, vs) {
        return;
    }
    let before = g.clone();
    match guard(|| f(&g)) {
        Err(m) => vs.push(Violation::new("unexpected_panic", &name, class, format!("panicked: {m}"))),
        Ok(r) => {
            match r.obs().to_dg() {
                Err(why) => vs.push(Violation::new("malformed_result", &name, class, why)),
                Ok(got) => {
                    if &got != exp {
                        vs.push(Violation::new("wrong_result", &name, class, diff_dg(&got, exp)));
                    }
                }
            }
            if g != before || g.obs() != before.obs() {
                vs.push(Violation::new("operand_changed", &name, class, "operand differs after the call".into()));
            }
        }
    }
}

pub fn seq_binary<R: Rep>(st: &mut Stats, vs: &mut Vec<Violation>, opname: &str, d: &Dg, e: &Dg, exp: &Dg, f: impl Fn(&R, &R) -> R) {
    st.sequential_checks += 1;
    let name = format!("{}::{opname}", R::NAME);
    let class = if d.is_contiguous() && e.is_contiguous() { "contiguous" } else { "noncontiguous" };
    let (g, h) = match guard(|| (R::build(d), R::build(e))) {
        Ok(x) => x,
        Err(m) => {
            vs.push(Violation::new("unexpected_panic", &format!("{}::build", R::NAME), class, m));
            return;
        }
    };
    if !check_built(&g, d, vs) || !check_built(&h, e, vs) {
        return;
    }
    let (bg, bh) = (g.clone(), h.clone());
    match guard(|| f(&g, &h)) {
        Err(m) => vs.push(Violation::new("unexpected_panic", &name, class, format!("panicked: {m}"))),
        Ok(r) => {
            match r.obs().to_dg() {
                Err(why) => vs.push(Violation::new("malformed_result", &name, class, why)),
                Ok(got) => {
                    if &got != exp {
                        vs.push(Violation::new("wrong_result", &name, class, diff_dg(&got, exp)));
                    }
                }
            }
            if g != bg || h != bh || g.obs() != bg.obs() || h.obs() != bh.obs() {
                vs.push(Violation::new("operand_changed", &name, class, "an operand differs after the call".into()));
            }
        }
    }
}

fn weighted_converse(st: &mut Stats, vs: &mut Vec<Violation>, d: &Dg, wseed: u64) {
    let wd = WDg { v: d.v.clone(), a: d.a.iter().map(|&(u, w)| ((u, w), weight_of(wseed, u, w))).collect() };
    let exp = wd.converse();
    for unsigned in [false, true] {
        st.sequential_checks += 1;
        let name = if unsigned { "AdjacencyListWeighted<usize>::converse" } else { "AdjacencyListWeighted<isize>::converse" };
        let got = guard(|| {
            if unsigned {
                let g = build_weighted_usize(&wd);
                let before = g.clone();
                let r = g.converse();
                (observe_wu(&r), g == before)
            } else {
                let g = build_weighted_isize(&wd);
                let before = g.clone();
                let r = g.converse();
                (observe_wi(&r), g == before)
            }
        });
        match got {
            Err(m) => vs.push(Violation::new("unexpected_panic", name, "contiguous", m)),
            Ok((o, unchanged)) => {
                match o.to_wdg() {
                    Err(why) => vs.push(Violation::new("malformed_result", name, "contiguous", why)),
                    Ok(g) => {
                        if g != exp {
                            vs.push(Violation::new("wrong_result", name, "contiguous",
                                format!("weighted converse differs: got {} arcs, expected {}; unweighted: {}", g.a.len(), exp.a.len(), diff_dg(&g.unweighted(), &exp.unweighted()))));
                        }
                    }
                }
                if !unchanged {
                    vs.push(Violation::new("operand_changed", name, "contiguous", "operand differs after the call".into()));
                }
            }
        }
    }
}

impl Lane for C11 {
    const ID: &'static str = "C11";
    type Body = Body;

    fn draw(rng: &mut Rng, tier: Tier, _run_index: u64) -> Scenario<Body> {
        let max = match tier {
            Tier::Quick => 26,
            Tier::Thorough => 70,
        };
        let max = if rng.chance(1, 5) { max } else { max.min(20) };
        let (d, e) = if rng.chance(1, 2) {
            let n1 = if rng.chance(1, 150) { draw_giant(rng, 1100) } else { draw_order_tail(rng, max).min(200) };
            let n2 = match rng.below(4) {
                0 => n1,
                1 => rng.range(1, n1),
                _ => draw_order(rng, max),
            };
            let (p1, p2) = if n1 > 250 { (2, 3) } else if n1 > 100 { (15, 30) } else { (draw_density(rng), draw_density(rng)) };
            (random_dg(rng, n1, p1), random_dg(rng, n2, p2))
        } else {
            draw_map_pair(rng, max.min(40))
        };
        // the predicate never selects nothing: an order-0 digraph is outside graaf's domain
        let verts: Vec<usize> = d.v.iter().copied().collect();
        let mut keep: BTreeSet<usize> = verts.iter().copied().filter(|_| rng.chance(1, 2)).collect();
        if keep.is_empty() {
            let _ = keep.insert(*rng.pick(&verts));
        }
        if rng.chance(1, 3) {
            let _ = keep.insert(verts[verts.len() - 1].saturating_add(1 + rng.below(3)));
        }
        let rows = d.order().max(e.order());
        let nconf = match tier {
            Tier::Quick => 4,
            Tier::Thorough => 8,
        };
        let mut confs = Vec::new();
        confs.push(Conf { cpu: Some(1), sched: draw_sched(rng, rows), trace: None });
        while confs.len() < nconf {
            confs.push(Conf { cpu: draw_cpu(rng, rows), sched: draw_sched(rng, rows), trace: None });
        }
        Scenario { body: Body { d, e, keep, wseed: rng.next_u64() }, confs }
    }

    fn run(sc: &Scenario<Body>, st: &mut Stats) -> Vec<Violation> {
        let Body { d, e, keep, wseed } = &sc.body;
        let mut vs = Vec::new();
        let both_contig = d.is_contiguous() && e.is_contiguous();
        let class = if both_contig { "contiguous" } else { "noncontiguous" };
        st.bump(&format!("input/{class}"));
        if d.order() != e.order() {
            st.bump("probe/union_operands_of_different_order");
        }
        if !d.v.is_disjoint(&e.v) && d.v != e.v {
            st.bump("probe/union_partially_overlapping_vertex_sets");
        }
        // threaded implementations: every configuration of the scenario
        let giant = d.order().max(e.order()) > 250;
        if giant {
            st.bump("probe/giant_operand");
        }
        if d.is_contiguous() {
            // the complement of a sparse giant has ~10^6 arcs: two configurations instead of all
            let confs = if giant { &sc.confs[..sc.confs.len().min(2)] } else { &sc.confs[..] };
            vs.extend(run_top(&TOp::ListComplement { d: d.clone() }, confs, st, "contiguous"));
        }
        if both_contig {
            vs.extend(run_top(&TOp::ListUnion { d: d.clone(), e: e.clone() }, &sc.confs, st, "contiguous"));
        }
        vs.extend(run_top(&TOp::MapUnion { d: d.clone(), e: e.clone() }, &sc.confs, st, class));
        let _ = relation_class; // relation classes are counted inside run_top
        if d.order() >= 2 && d.size() >= 1 {
            st.case(&[vmodel::rng::digest(serde_json::to_string(&sc.body).unwrap().as_bytes())]);
        }
        // sequential implementations: once per input (no schedule to vary)
        let comp = d.complement();
        let conv = d.converse();
        let uni = d.union(e);
        seq_unary::<AdjacencyMap>(st, &mut vs, "complement", d, &comp, |g| g.complement());
        seq_unary::<AdjacencyMap>(st, &mut vs, "converse", d, &conv, |g| g.converse());
        let keep2 = keep.clone();
        seq_unary::<AdjacencyMap>(st, &mut vs, "filter_vertices", d, &d.induced(keep), move |g| {
            g.filter_vertices(|x| keep2.contains(&x))
        });
        if d.is_contiguous() {
            seq_unary::<AdjacencyList>(st, &mut vs, "converse", d, &conv, |g| g.converse());
            seq_unary::<AdjacencyMatrix>(st, &mut vs, "complement", d, &comp, |g| g.complement());
            seq_unary::<EdgeList>(st, &mut vs, "complement", d, &comp, |g| g.complement());
            seq_unary::<AdjacencyMatrix>(st, &mut vs, "converse", d, &conv, |g| g.converse());
            seq_unary::<EdgeList>(st, &mut vs, "converse", d, &conv, |g| g.converse());
            weighted_converse(st, &mut vs, d, *wseed);
        }
        if both_contig {
            seq_binary::<AdjacencyMatrix>(st, &mut vs, "union", d, e, &uni, |g, h| g.union(h));
            seq_binary::<EdgeList>(st, &mut vs, "union", d, e, &uni, |g, h| g.union(h));
            // the other argument order (commutativity is a consequence of the definition)
            seq_binary::<AdjacencyMatrix>(st, &mut vs, "union", e, d, &uni, |g, h| g.union(h));
            seq_binary::<EdgeList>(st, &mut vs, "union", e, d, &uni, |g, h| g.union(h));
        }
        vs
    }

    fn shrink(body: &Body) -> Vec<Body> {
        let mut out = Vec::new();
        for d in shrink_dg(&body.d) {
            let mut keep: BTreeSet<usize> = body.keep.iter().copied().filter(|x| d.v.contains(x)).collect();
            if keep.is_empty() {
                let _ = keep.insert(*d.v.iter().next().unwrap());
            }
            out.push(Body { d, e: body.e.clone(), keep, wseed: body.wseed });
        }
        for e in shrink_dg(&body.e) {
            out.push(Body { d: body.d.clone(), e, keep: body.keep.clone(), wseed: body.wseed });
        }
        if body.e != body.d {
            out.push(Body { d: body.d.clone(), e: body.d.clone(), keep: body.keep.clone(), wseed: body.wseed });
        }
        out
    }
}
