//! C20 — equality, ordering, hashing and cloning respect the abstract digraph.
//!
//! One run: history A (any constructor, then random mutations) defines the
//! abstract digraph M. History B reaches the *same* M along a different route
//! (another constructor, detour mutations, then the fix-up steps that turn
//! whatever it has into M, in shuffled order). History C reaches a *neighbour*
//! of M (one arc, one weight, or the order differs). Then A is cloned and both
//! copies continue with independent mutation histories.

use super::c01::{draw_small_order, draw_start, draw_steps, model_apply, run_history, run_history_sparse};
use super::draw_sched;
use crate::core::{Lane, Scenario, Stats, Tier, Violation};
use crate::dynrep::{construct, start_supported, DynG, ReprKind, Start, Step, ALL_KINDS};
use crate::exec::{with_cpu, Conf};
use graaf::IsComplete;
use serde::{Deserialize, Serialize};
use std::cmp::Ordering;
use vmodel::dg::{Dg, WDg};
use vmodel::gen::{draw_cpu, draw_density, random_dg_on};
use vmodel::rng::{digest, Rng};

pub struct C20;

#[derive(Clone, Debug, Serialize, Deserialize)]
pub struct Route {
    /// "empty" | "gen:<name>" | "rand:<name>" | "model" | "derived:<op>": which constructor family the
    /// route starts from; its parameters are derived from the target's vertex set at run time
    pub start: String,
    pub seed: u64,
    /// number of random detour mutations before the fix-up
    pub detour: usize,
}

#[derive(Clone, Debug, Serialize, Deserialize)]
pub struct Body {
    pub kind: ReprKind,
    pub start_a: Start,
    pub steps_a: Vec<Step>,
    pub route_b: Route,
    pub route_c: Route,
    /// how the neighbour differs: "arc" | "weight" | "order"
    pub neighbour: String,
    pub after_clone_original: Vec<Step>,
    pub after_clone_copy: Vec<Step>,
}

/// A start digraph of family `route.start` whose vertex set is exactly `v`
/// (fixed-order: 0..n).
fn route_start(kind: ReprKind, route: &Route, target: &WDg) -> Start {
    let n = target.v.len();
    let contiguous = target.unweighted().is_contiguous();
    let mut rng = Rng::new(route.seed);
    let fallback = if contiguous {
        Start::Empty { order: n }
    } else {
        Start::Model { d: WDg { v: target.v.clone(), a: Default::default() }, via: "builder".into() }
    };
    let s = match route.start.as_str() {
        "empty" => fallback.clone(),
        x if x.starts_with("gen:") && contiguous => {
            let gen = &x[4..];
            match gen {
                "wheel" if n < 4 => fallback.clone(),
                "biclique" if n < 2 => fallback.clone(),
                "biclique" => {
                    let m = rng.range(1, n - 1);
                    Start::Gen { gen: gen.into(), a: m, b: n - m }
                }
                _ => Start::Gen { gen: gen.into(), a: n, b: 0 },
            }
        }
        x if x.starts_with("rand:") && contiguous => {
            let p = *rng.pick(&[0.0, 0.2, 0.5, 0.8, 1.0]);
            Start::Rand { gen: x[5..].into(), order: n, seed: rng.next_u64(), p_bits: f64::to_bits(p) }
        }
        "model" => {
            let p = draw_density(&mut rng);
            let d = random_dg_on(&mut rng, &target.v, p);
            let via = if contiguous {
                *rng.pick(&["builder", "from_rows", "convert:List", "convert:Map", "convert:Matrix", "convert:Edge"])
            } else {
                "builder"
            };
            let w = if via.starts_with("convert:") && kind.weighted() { 1 } else { 0 };
            Start::Model { d: WDg { v: d.v.clone(), a: d.a.iter().map(|&a| (a, w)).collect() }, via: via.into() }
        }
        x if x.starts_with("derived:") => {
            let p = draw_density(&mut rng);
            let d = random_dg_on(&mut rng, &target.v, p);
            let op = &x[8..];
            let e = if op == "union" {
                // a second operand on a subset of the vertices (so that V stays the target's)
                let keep: std::collections::BTreeSet<usize> =
                    if contiguous { (0..rng.range(1, n)).collect() } else { target.v.clone() };
                let q = draw_density(&mut rng);
                random_dg_on(&mut rng, &keep, q)
            } else {
                Dg::from_parts(target.v.iter().copied(), [])
            };
            Start::Derived { op: op.into(), d, e }
        }
        _ => fallback.clone(),
    };
    if start_supported(kind, &s) {
        s
    } else {
        fallback
    }
}

/// Steps that turn `cur` into `target` (same vertex set), shuffled.
fn fixup(kind: ReprKind, cur: &WDg, target: &WDg, seed: u64) -> Vec<Step> {
    let mut rng = Rng::new(seed);
    let mut steps = Vec::new();
    for (&(u, v), &w) in &target.a {
        match cur.a.get(&(u, v)) {
            Some(&x) if x == w => {}
            _ => steps.push(if kind.weighted() {
                Step::AddW { u, v, w }
            } else if kind == ReprKind::Matrix && !cur.a.contains_key(&(u, v)) && rng.chance(1, 2) {
                Step::Toggle { u, v }
            } else {
                Step::Add { u, v }
            }),
        }
    }
    for &(u, v) in cur.a.keys() {
        if !target.a.contains_key(&(u, v)) {
            steps.push(if kind == ReprKind::Matrix && rng.chance(1, 2) { Step::Toggle { u, v } } else { Step::Remove { u, v } });
        }
    }
    rng.shuffle(&mut steps);
    steps
}

/// Random valid mutations that stay inside the vertex set.
fn detour(kind: ReprKind, v: &std::collections::BTreeSet<usize>, len: usize, seed: u64) -> Vec<Step> {
    let mut rng = Rng::new(seed ^ 0xD37);
    let ids: Vec<usize> = v.iter().copied().collect();
    let mut steps = Vec::new();
    if ids.len() < 2 {
        return steps;
    }
    for _ in 0..len {
        let u = *rng.pick(&ids);
        let mut w = *rng.pick(&ids);
        if w == u {
            w = ids[(ids.binary_search(&u).unwrap() + 1) % ids.len()];
        }
        let r = rng.below(100);
        steps.push(if kind.weighted() {
            if r < 60 {
                Step::AddW { u, v: w, w: rng.below(50) as i64 }
            } else {
                Step::Remove { u, v: w }
            }
        } else if kind == ReprKind::Matrix && r < 30 {
            Step::Toggle { u, v: w }
        } else if r < 65 {
            Step::Add { u, v: w }
        } else {
            Step::Remove { u, v: w }
        });
    }
    steps
}

/// `==`, `cmp`, `hash` and `clone_from` are library code like any other: whether they start workers is a
/// property of the tree under test. Every comparison of this lane is therefore evaluated at each of these
/// simulated CPU counts (inside the ambient execution, which schedules the workers); `true` if `f` holds
/// at any of them.
fn at_any_cpu(mut f: impl FnMut() -> bool) -> bool {
    [Some(1), Some(2), Some(3), Some(7), Some(16), None].into_iter().any(|c| with_cpu(c, || f()))
}

struct Built {
    g: DynG,
    model: WDg,
}

/// Follow a route to `target`. `None` when a violation was recorded.
fn follow_route(
    kind: ReprKind,
    route: &Route,
    target: &WDg,
    conf: &Conf,
    st: &mut Stats,
    vs: &mut Vec<Violation>,
    label: &str,
) -> Option<Built> {
    let start = route_start(kind, route, target);
    st.bump(&format!("route/{}", start.label()));
    let c = construct(kind, &start, conf);
    if let Some(log) = &c.exec {
        st.exec(conf, log);
    } else {
        st.sequential_checks += 1;
    }
    let ctor = format!("{}::{}", kind.name(), start.label());
    let mut g = match c.g {
        Ok(g) => g,
        Err(m) => {
            vs.push(Violation::new("unexpected_panic", &ctor, "start", format!("{label}constructing {start:?} failed: {m}")));
            return None;
        }
    };
    let mut model = match g.observe().to_wdg() {
        Ok(m) => m,
        Err(why) => {
            vs.push(Violation::new("malformed_listing", &ctor, "start", format!("{label}{why}")));
            return None;
        }
    };
    if model.v.is_empty() {
        vs.push(Violation::new("start_without_vertices", &ctor, "start", format!("{label}the start digraph shows no vertex at all")));
        return None;
    }
    if model.v != target.v {
        // a constructor with another vertex set than asked for: not this property's business to judge
        // (C11/C14/C15), but the route cannot continue
        st.bump("harness/route_start_with_other_vertex_set");
        return None;
    }
    let det = detour(kind, &target.v, route.detour, route.seed);
    if !run_history(kind, &mut g, &mut model, &det, st, vs, label) {
        return None;
    }
    let fix = fixup(kind, &model, target, route.seed);
    let every = if fix.len() > 64 { 16 } else { 1 };
    if !run_history_sparse(kind, &mut g, &mut model, &fix, st, vs, label, every) {
        return None;
    }
    debug_assert_eq!(&model, target);
    Some(Built { g, model })
}

fn is_complete_of(g: &DynG) -> bool {
    match g {
        DynG::List(x) => x.is_complete(),
        DynG::Map(x) => x.is_complete(),
        DynG::Matrix(x) => x.is_complete(),
        DynG::Edge(x) => x.is_complete(),
        DynG::WI(x) => x.is_complete(),
        DynG::WU(x) => x.is_complete(),
    }
}

/// A neighbour of `m`: one arc toggled, one weight changed, or one more vertex.
fn neighbour_of(kind: ReprKind, m: &WDg, how: &str, seed: u64) -> WDg {
    let mut rng = Rng::new(seed ^ 0xE16);
    let ids: Vec<usize> = m.v.iter().copied().collect();
    let mut n = m.clone();
    let toggle_arc = |n: &mut WDg, rng: &mut Rng| {
        if ids.len() >= 2 {
            // in a giant the differing arc sits at a structured place (first / last / last but one / middle
            // row or column) as often as anywhere
            let place = |rng: &mut Rng| -> usize {
                if ids.len() <= 64 {
                    return *rng.pick(&ids);
                }
                match rng.below(8) {
                    0 => ids[0],
                    1 | 2 => ids[ids.len() - 1],
                    3 => ids[ids.len() - 2],
                    4 => ids[ids.len() / 2],
                    _ => *rng.pick(&ids),
                }
            };
            let u = place(rng);
            let mut v = place(rng);
            if v == u {
                v = ids[(ids.binary_search(&u).unwrap() + 1) % ids.len()];
            }
            if n.a.remove(&(u, v)).is_none() {
                let _ = n.a.insert((u, v), 0);
            }
        } else {
            // a single vertex: the only neighbour is one more vertex
            let _ = n.v.insert(ids[ids.len() - 1].wrapping_add(1));
        }
    };
    match how {
        "weight" if kind.weighted() && !m.a.is_empty() => {
            let keys: Vec<_> = m.a.keys().copied().collect();
            let k = *rng.pick(&keys);
            let w = n.a.get_mut(&k).unwrap();
            *w = if *w == 5 { 6 } else { 5 };
        }
        "order" => {
            let _ = n.v.insert(ids[ids.len() - 1].wrapping_add(1));
        }
        "move" => {
            // same size, same outdegrees: one arc of a row that has both an arc and a non-neighbour is moved to
            // another head (in a near-complete digraph these are exactly the rows with a gap)
            let rows: Vec<usize> = ids
                .iter()
                .copied()
                .filter(|&u| {
                    let d = m.a.range((u, 0)..=(u, usize::MAX)).count();
                    d >= 1 && d + 1 < ids.len()
                })
                .collect();
            if rows.is_empty() {
                toggle_arc(&mut n, &mut rng);
            } else {
                let u = *rng.pick(&rows);
                let heads: Vec<usize> = m.a.range((u, 0)..=(u, usize::MAX)).map(|(&(_, w), _)| w).collect();
                let free: Vec<usize> = ids.iter().copied().filter(|&w| w != u && !m.a.contains_key(&(u, w))).collect();
                // an inner head of the row as often as any (the extremes of a row are what cheap tests look at)
                let from = if heads.len() > 2 && rng.chance(1, 2) { heads[rng.range(1, heads.len() - 2)] } else { *rng.pick(&heads) };
                let to = *rng.pick(&free);
                let w = n.a.remove(&(u, from)).unwrap_or(0);
                let _ = n.a.insert((u, to), w);
            }
        }
        "rename" if kind == ReprKind::Map => {
            // the same digraph up to the id of ONE vertex (preferably one without in-arcs, renamed to a free
            // id inside the id range): same order, same rows rank by rank, another vertex set
            let no_in: Vec<usize> = ids.iter().copied().filter(|x| !m.a.keys().any(|&(_, w)| w == *x)).collect();
            let x = if no_in.is_empty() { *rng.pick(&ids) } else { *rng.pick(&no_in) };
            let (lo, hi) = (ids[0], ids[ids.len() - 1]);
            let free: Vec<usize> = (lo..=hi.min(lo + 200)).filter(|y| !m.v.contains(y)).collect();
            let y = if free.is_empty() { hi.wrapping_add(1 + rng.below(2)) } else { *rng.pick(&free) };
            if !m.v.contains(&y) {
                let f = |z: usize| if z == x { y } else { z };
                n.v = m.v.iter().map(|&z| f(z)).collect();
                n.a = m.a.iter().map(|(&(u, w), &wt)| ((f(u), f(w)), wt)).collect();
            }
        }
        _ => toggle_arc(&mut n, &mut rng),
    }
    n
}

impl Lane for C20 {
    const ID: &'static str = "C20";
    type Body = Body;

    fn draw(rng: &mut Rng, tier: Tier, _run_index: u64) -> Scenario<Body> {
        let kind = *rng.pick(&ALL_KINDS);
        // fix-up histories are as long as the arc set: keep the digraphs of this lane small (the bit-matrix
        // word boundaries at orders 8..12 are covered; orders >= 63 belong to C01's short histories)
        let mut start_a = draw_start(rng, kind);
        // (the bit matrix may be larger: its hidden state - padding bits, block counts - depends on the order)
        let cap = if kind == ReprKind::Matrix { 80 } else { 24 };
        for _ in 0..8 {
            if super::c01::start_order_hint(&start_a) <= cap {
                break;
            }
            start_a = draw_start(rng, kind);
        }
        if super::c01::start_order_hint(&start_a) > cap {
            start_a = Start::Empty { order: 12 };
        }
        let near_complete = !kind.weighted() && rng.chance(1, 40);
        if near_complete {
            // dense rows: a complete digraph of order 13..=24 minus one to three arcs at structured rows
            start_a = Start::Gen { gen: "complete".into(), a: rng.range(13, 24), b: 0 };
        }
        let n = draw_small_order(rng, kind).max(2);
        let maxlen = match tier {
            Tier::Quick => 24,
            Tier::Thorough => 48,
        };
        let len_a = rng.range(0, maxlen);
        // only valid calls in the construction histories: rejected calls are C01's subject
        let valid_only = |steps: Vec<Step>, fixed: bool| -> Vec<Step> {
            steps.into_iter().filter(|s| {
                let (u, v) = s.uv();
                u != v && (!fixed || (u < 64 && v < 64)) && u < (1 << 20) && v < (1 << 20)
            }).collect()
        };
        let mut steps_a = valid_only(draw_steps(rng, kind, n, len_a.max(1)), kind.fixed_order());
        if near_complete {
            let n = super::c01::start_order_hint(&start_a);
            steps_a.clear();
            for _ in 0..rng.range(1, 3) {
                let r = rng.below(n);
                let u = *rng.pick(&[0, n - 1, n / 2, r]);
                let v = (u + 1 + rng.below(n - 1)) % n;
                steps_a.push(Step::Remove { u, v });
            }
        }
        let starts = ["empty", "gen:complete", "gen:cycle", "gen:circuit", "gen:star", "gen:path", "gen:wheel", "gen:biclique", "gen:empty",
            "rand:tournament", "rand:erdos_renyi", "rand:recursive_tree", "model", "model", "derived:complement", "derived:converse", "derived:union"];
        let route_b = Route { start: (*rng.pick(&starts)).into(), seed: rng.next_u64(), detour: rng.range(0, maxlen) };
        let route_c = Route { start: (*rng.pick(&starts)).into(), seed: rng.next_u64(), detour: rng.range(0, 8) };
        let neighbour = (*rng.pick(&["arc", "arc", "weight", "order", "rename", "move"])).to_string();
        let (l1, l2) = (rng.range(1, 12), rng.range(1, 12));
        let after_clone_original = valid_only(draw_steps(rng, kind, n, l1), kind.fixed_order());
        let after_clone_copy = valid_only(draw_steps(rng, kind, n, l2), kind.fixed_order());
        let confs = (0..3).map(|_| Conf { cpu: draw_cpu(rng, n), sched: draw_sched(rng, n), trace: None }).collect();
        if rng.chance(1, 400) {
            // giant and sparse: hand-written ==, cmp, hash and clone_from take other paths above size
            // thresholds (rows per worker, blocks per row); the digraphs differ at structured places
            let n = super::c17::draw_giant(rng, 2100);
            let corner_steps = |rng: &mut Rng, len: usize| -> Vec<Step> {
                let mut steps = Vec::new();
                for _ in 0..len {
                    let pick = |rng: &mut Rng| match rng.below(6) {
                        0 => 0,
                        1 => n - 1,
                        2 => n - 2,
                        3 => n / 2,
                        _ => rng.below(n),
                    };
                    let (u, mut v) = (pick(rng), pick(rng));
                    if u == v {
                        v = (v + 1) % n;
                    }
                    steps.push(if kind.weighted() {
                        Step::AddW { u, v, w: rng.below(50) as i64 }
                    } else if rng.chance(1, 5) {
                        Step::Remove { u, v }
                    } else {
                        Step::Add { u, v }
                    });
                }
                steps
            };
            let len = rng.range(2, 10);
            let steps_a = corner_steps(rng, len);
            let light = ["empty", "gen:empty", "gen:path", "gen:star", "gen:circuit"];
            let route_b = Route { start: (*rng.pick(&light)).into(), seed: rng.next_u64(), detour: rng.range(0, 6) };
            let route_c = Route { start: (*rng.pick(&light[..2])).into(), seed: rng.next_u64(), detour: rng.range(0, 4) };
            let neighbour = (*rng.pick(&["arc", "arc", "arc", "weight", "order"])).to_string();
            let (l1, l2) = (rng.range(1, 4), rng.range(1, 4));
            let (after_clone_original, after_clone_copy) = (corner_steps(rng, l1), corner_steps(rng, l2));
            return Scenario { body: Body { kind, start_a: Start::Empty { order: n }, steps_a, route_b, route_c, neighbour, after_clone_original, after_clone_copy }, confs };
        }
        Scenario { body: Body { kind, start_a, steps_a, route_b, route_c, neighbour, after_clone_original, after_clone_copy }, confs }
    }

    fn run(sc: &Scenario<Body>, st: &mut Stats) -> Vec<Violation> {
        let b = &sc.body;
        let kind = b.kind;
        let rname = kind.name();
        let mut vs = Vec::new();
        st.bump(&format!("repr/{rname}"));
        // history A
        let c = construct(kind, &b.start_a, &sc.confs[0]);
        if let Some(log) = &c.exec {
            st.exec(&sc.confs[0], log);
        } else {
            st.sequential_checks += 1;
        }
        let ctor = format!("{rname}::{}", b.start_a.label());
        let Ok(mut ga) = c.g else {
            vs.push(Violation::new("unexpected_panic", &ctor, "start", format!("constructing {:?} failed", b.start_a)));
            return vs;
        };
        let Ok(mut ma) = ga.observe().to_wdg() else {
            vs.push(Violation::new("malformed_listing", &ctor, "start", "start digraph shows a malformed listing".into()));
            return vs;
        };
        if ma.v.is_empty() {
            vs.push(Violation::new("start_without_vertices", &ctor, "start", "the start digraph shows no vertex at all".into()));
            return vs;
        }
        // steps of A that the model rejects (ids outside a fixed order) are dropped, not executed
        let steps_a: Vec<Step> = {
            let mut probe = ma.clone();
            b.steps_a.iter().copied().filter(|s| !matches!(model_apply(kind, &mut probe, s), super::c01::Expect::Reject)).collect()
        };
        if !run_history(kind, &mut ga, &mut ma, &steps_a, st, &mut vs, "history A: ") {
            return vs;
        }
        let target = ma.clone();
        if target.v.len() > 300 {
            st.bump("probe/giant_digraphs_compared");
        }
        // history B: another route to the same abstract digraph
        let Some(bb) = follow_route(kind, &b.route_b, &target, &sc.confs[1], st, &mut vs, "history B: ") else { return vs };
        let (gb, _mb) = (bb.g, bb.model);
        let eq_name = format!("{rname}::eq");
        let desc = || format!("A = {:?} + {} steps, B = route {:?}; both show V={:?} A={:?}", b.start_a.label(), steps_a.len(), b.route_b.start, target.v, target.a);
        if at_any_cpu(|| ga != gb || gb != ga) {
            vs.push(Violation::new("equal_digraphs_compare_unequal", &eq_name, "same_abstract_digraph", desc()));
        }
        if at_any_cpu(|| ga.cmp(&gb) != Ordering::Equal || gb.cmp(&ga) != Ordering::Equal || ga.partial_cmp(&gb) != Some(Ordering::Equal)) {
            vs.push(Violation::new("equal_digraphs_not_ordering_equal", &format!("{rname}::cmp"), "same_abstract_digraph", desc()));
        }
        if at_any_cpu(|| ga.hash64() != gb.hash64()) {
            vs.push(Violation::new("equal_digraphs_hash_differently", &format!("{rname}::hash"), "same_abstract_digraph", desc()));
        }
        st.bump("probe/two_histories_same_digraph_compared");
        if !steps_a.is_empty() && b.route_b.detour > 0 {
            st.case(&[digest(serde_json::to_string(b).unwrap().as_bytes())]);
        }
        // is_complete rides on canonical form for matrix / edge list
        let mc = target.unweighted().is_complete();
        for (which, g) in [("A", &ga), ("B", &gb)] {
            st.sequential_checks += 1;
            if is_complete_of(g) != mc {
                vs.push(Violation::new("wrong_result", &format!("{rname}::is_complete"), "after_history", format!("history {which}: is_complete() = {}, the abstract digraph says {mc}; {}", !mc, desc())));
            }
        }
        if mc {
            st.bump("probe/complete_digraph_reached_by_history");
        }
        // history C: a neighbour digraph must compare unequal
        let how = if b.neighbour == "order" && kind.fixed_order() { "order" } else { b.neighbour.as_str() };
        let nb = neighbour_of(kind, &target, how, b.route_c.seed);
        if nb != target && (kind == ReprKind::Map || nb.unweighted().is_contiguous()) {
            if let Some(cc) = follow_route(kind, &b.route_c, &nb, &sc.confs[2], st, &mut vs, "history C: ") {
                let gc = cc.g;
                st.bump(&format!("probe/neighbour_compared/{how}"));
                let d2 = || format!("A shows V={:?} A={:?}; C shows V={:?} A={:?}", target.v, target.a, nb.v, nb.a);
                if at_any_cpu(|| ga == gc || gc == ga) {
                    vs.push(Violation::new("different_digraphs_compare_equal", &eq_name, &format!("neighbour_{how}"), d2()));
                }
                // (the property speaks about == for different digraphs, and about cmp only for equal ones:
                // nothing is asserted about cmp between different digraphs)
                let _ = &gc;
            }
        }
        // clone_from into existing values (of the same and of other orders, with and without arcs) must
        // make them equal to the source, observably and under ==/hash/cmp, whatever they held before
        {
            let n = target.v.len();
            let mut dests: Vec<(String, DynG)> = vec![("history B's digraph".into(), gb.clone())];
            if kind == ReprKind::Map || target.unweighted().is_contiguous() {
                for (what, order) in [("an empty digraph of the same order", n), ("an empty digraph one vertex smaller", n.max(2) - 1),
                                      ("an empty digraph one vertex larger", n + 1), ("an empty digraph of order 1", 1)] {
                    let c = construct(kind, &Start::Empty { order }, &sc.confs[0]);
                    if let Ok(g) = c.g {
                        dests.push((what.into(), g));
                    }
                }
                let mut dense = WDg::empty(n + 1);
                for u in 0..=(if n > 300 { 0 } else { n }) {
                    for w in 0..=n {
                        if u != w && (u + 2 * w) % 3 != 0 {
                            let _ = dense.a.insert((u, w), if kind.weighted() { 9 } else { 0 });
                        }
                    }
                }
                if let Ok(g) = crate::reps::guard(|| DynG::build(kind, &dense)) {
                    dests.push(("a dense digraph one vertex larger".into(), g));
                }
            }
            for (what, mut dst) in dests {
                st.sequential_checks += 1;
                dst.clone_from(&ga);
                let same_obs = dst.observe() == ga.observe();
                if !same_obs || at_any_cpu(|| dst != ga || dst.hash64() != ga.hash64() || dst.cmp(&ga) != Ordering::Equal) {
                    vs.push(Violation::new("clone_from_differs", &format!("{rname}::clone_from"), "",
                        format!("clone_from into {what}: == {}, same observation {same_obs}, same hash {}; source shows V={:?} A={:?}", dst == ga, dst.hash64() == ga.hash64(), target.v, target.a)));
                    return vs;
                }
            }
            st.bump("probe/clone_from_checked");
        }
        // clone: equal at the fork, independent afterwards
        let mut copy = ga.clone();
        if copy.observe() != ga.observe() || at_any_cpu(|| copy != ga || copy.hash64() != ga.hash64()) {
            vs.push(Violation::new("clone_differs", &format!("{rname}::clone"), "", desc()));
            return vs;
        }
        let mut m_orig = target.clone();
        let mut m_copy = target.clone();
        let keep = |steps: &[Step], m: &WDg| -> Vec<Step> {
            let mut probe = m.clone();
            steps.iter().copied().filter(|s| !matches!(model_apply(kind, &mut probe, s), super::c01::Expect::Reject)).collect()
        };
        let sc_copy = keep(&b.after_clone_copy, &m_copy);
        if !run_history(kind, &mut copy, &mut m_copy, &sc_copy, st, &mut vs, "copy after clone: ") {
            return vs;
        }
        match ga.observe().to_wdg() {
            Ok(now) if now == target => {}
            _ => {
                vs.push(Violation::new("clone_not_independent", &format!("{rname}::clone"), "", format!("mutating the copy ({} steps) changed the original: it showed V={:?} A={:?} before", sc_copy.len(), target.v, target.a)));
                return vs;
            }
        }
        let so = keep(&b.after_clone_original, &m_orig);
        if !run_history(kind, &mut ga, &mut m_orig, &so, st, &mut vs, "original after clone: ") {
            return vs;
        }
        match copy.observe().to_wdg() {
            Ok(now) if now == m_copy => {}
            _ => {
                vs.push(Violation::new("clone_not_independent", &format!("{rname}::clone"), "", format!("mutating the original ({} steps) changed the copy", so.len())));
                return vs;
            }
        }
        st.bump("probe/clone_then_diverge");
        if (m_orig == m_copy) != (ga == copy) {
            vs.push(Violation::new("eq_disagrees_with_abstract_digraph", &eq_name, "after_divergence", format!("models equal: {}, == says {}", m_orig == m_copy, ga == copy)));
        }
        vs
    }

    fn shrink(body: &Body) -> Vec<Body> {
        let mut out = Vec::new();
        let drop_each = |steps: &Vec<Step>| -> Vec<Vec<Step>> {
            let mut v = Vec::new();
            if steps.len() > 1 {
                v.push(steps[..steps.len() / 2].to_vec());
                v.push(steps[steps.len() / 2..].to_vec());
            }
            for i in (0..steps.len()).rev() {
                let mut s = steps.clone();
                let _ = s.remove(i);
                v.push(s);
            }
            v
        };
        for s in drop_each(&body.steps_a) {
            out.push(Body { steps_a: s, ..body.clone() });
        }
        for s in drop_each(&body.after_clone_original) {
            out.push(Body { after_clone_original: s, ..body.clone() });
        }
        for s in drop_each(&body.after_clone_copy) {
            out.push(Body { after_clone_copy: s, ..body.clone() });
        }
        for d in [0, body.route_b.detour / 2, body.route_b.detour.saturating_sub(1)] {
            if d < body.route_b.detour {
                out.push(Body { route_b: Route { detour: d, ..body.route_b.clone() }, ..body.clone() });
            }
        }
        if body.route_b.start != "empty" {
            out.push(Body { route_b: Route { start: "empty".into(), ..body.route_b.clone() }, ..body.clone() });
        }
        if !matches!(body.start_a, Start::Empty { .. }) {
            out.push(Body { start_a: Start::Empty { order: 3 }, ..body.clone() });
            out.push(Body { start_a: Start::Empty { order: 2 }, ..body.clone() });
        }
        out
    }
}
