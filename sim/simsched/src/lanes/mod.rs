//! Property lanes and what they share: drawing configurations (swarm style)
//! and running one threaded operation under one configuration.

pub mod c01;
pub mod c11;
pub mod c12;
pub mod c13;
pub mod c14;
pub mod c15;
pub mod c17;
pub mod c20;

use crate::core::{Stats, Tier, Violation};
use crate::exec::{run_exec, Conf, ExecReport, Failure};
use crate::ops::{OpResult, TOp};
use crate::sched::{SchedKind, SchedSpec};
use std::sync::Arc;
use vmodel::gen::Cpu;
use vmodel::rng::Rng;

/// One scheduler, swarm style: kind and parameters vary per draw.
pub fn draw_sched(rng: &mut Rng, rows: usize) -> SchedSpec {
    let seed = rng.next_u64();
    let kind = match rng.below(16) {
        0..=4 => SchedKind::Random,
        5 | 6 => SchedKind::Sticky { switch: *rng.pick(&[20, 100, 300]) },
        7..=9 => SchedKind::Pct {
            depth: rng.range(1, 5) as u32,
            // a threaded operation on `rows` rows takes roughly 2 decisions per worker
            est_steps: (4 * rows.clamp(2, 64)) as u32,
        },
        10 => SchedKind::RoundRobin,
        11 => SchedKind::OldestFirst,
        12 => SchedKind::NewestFirst,
        _ => SchedKind::StallOne { victim: rng.below(rows.clamp(1, 16)) as u32 },
    };
    SchedSpec { kind, seed, hold: crate::sched::hold_for_seed(seed), callers: crate::sched::callers_for_seed(seed) }
}

/// CPU counts for one input with `rows` rows.
pub fn draw_cpus(rng: &mut Rng, tier: Tier, rows: usize) -> Vec<Cpu> {
    let mut cpus: Vec<Cpu> = Vec::new();
    match tier {
        Tier::Quick => {
            // always: one CPU, the failing query, the machine's 16, and one of the two smallest parallel counts
            cpus.extend([Some(1), None, Some(16), Some(2 + rng.below(2))]);
            let around = [
                rows.max(2) - 1,
                rows.max(1),
                rows + 1,
                rows.div_ceil(2).max(1),
                rows.div_ceil(3).max(1),
                rng.range(2, 15),
                *rng.pick(&[17, 31, 32, 33, 64, 64, 128, 255, 1024]),
            ];
            let mut picks: Vec<usize> = around.to_vec();
            rng.shuffle(&mut picks);
            for p in picks {
                if cpus.len() >= 7 {
                    break;
                }
                if !cpus.contains(&Some(p)) {
                    cpus.push(Some(p));
                }
            }
        }
        Tier::Thorough => {
            cpus.push(None);
            cpus.extend((1..=16).map(Some));
            cpus.extend([Some(17), Some(32), Some(33), Some(64)]);
        }
    }
    cpus
}

pub fn draw_confs(rng: &mut Rng, tier: Tier, rows: usize) -> Vec<Conf> {
    let per = match tier {
        Tier::Quick => 2,
        Tier::Thorough => 3,
    };
    let mut confs = Vec::new();
    for cpu in draw_cpus(rng, tier, rows) {
        for _ in 0..per {
            confs.push(Conf { cpu, sched: draw_sched(rng, rows), trace: None });
        }
    }
    confs
}

/// Classify rows against the worker count an operation derives from `cpu`.
pub fn relation_class(rows: usize, cpu: Cpu) -> &'static [&'static str] {
    let t = cpu.unwrap_or(1).max(1);
    let chunk = rows.div_ceil(t).max(1);
    let base: &'static str = if rows < t {
        "rel/rows<t"
    } else if rows == t {
        "rel/rows=t"
    } else if rows <= 2 * t {
        "rel/t<rows<=2t"
    } else {
        "rel/rows>2t"
    };
    let ragged = rows % chunk != 0;
    match (base, ragged) {
        ("rel/rows<t", false) => &["rel/rows<t"],
        ("rel/rows<t", true) => &["rel/rows<t", "rel/last_chunk_short"],
        ("rel/rows=t", false) => &["rel/rows=t"],
        ("rel/rows=t", true) => &["rel/rows=t", "rel/last_chunk_short"],
        ("rel/t<rows<=2t", false) => &["rel/t<rows<=2t"],
        ("rel/t<rows<=2t", true) => &["rel/t<rows<=2t", "rel/last_chunk_short"],
        (_, false) => &["rel/rows>2t"],
        (_, true) => &["rel/rows>2t", "rel/last_chunk_short"],
    }
}

/// Run `calls` consecutive calls of one threaded operation inside one
/// scheduled execution.
pub fn exec_top(op: &TOp, conf: &Conf, calls: usize) -> ExecReport<Vec<OpResult>> {
    // building the operands uses the (sequential) mutation API: a panic there is reported, not propagated
    let prep = match crate::reps::guard(|| op.prepare()) {
        Ok(p) => Arc::new(p),
        Err(m) => {
            return ExecReport {
                value: None,
                failure: Some(Failure::Panic(format!("building the operands through the public API panicked: {m}"))),
                log: crate::sched::ExecLog::default(),
            }
        }
    };
    let op2 = op.clone();
    // concurrent callers: only where one call is cheap (they multiply the work and the schedule length)
    let callers = if op.rows() <= 100 { usize::from(conf.sched.callers) } else { 0 };
    if callers >= 2 {
        // `callers` tasks call the operation on the same borrowed operands at the same time (the operands are
        // `Sync`: the safe API allows it); every caller's result is judged like a single caller's
        let mut rep = run_exec(conf, move || {
            let handles: Vec<_> = (1..callers)
                .map(|_| {
                    let op3 = op2.clone();
                    let prep3 = Arc::clone(&prep);
                    shuttle::thread::spawn(move || op3.execute(&prep3))
                })
                .collect();
            let mut out = vec![op2.execute(&prep)];
            for h in handles {
                out.push(h.join().expect("a caller task panicked"));
            }
            out
        });
        rep.log.callers = callers as u8;
        return rep;
    }
    run_exec(conf, move || (0..calls).map(|_| op2.execute(&prep)).collect::<Vec<_>>())
}

/// Violations every execution is checked for, whatever the property: escaped
/// panic, deadlock, step overrun, workers alive after the call returned,
/// schedule replay divergence.
pub fn liveness_violations(
    op_name: &str,
    input_class: &str,
    ci: usize,
    rep_failure: &Option<Failure>,
    log: &crate::sched::ExecLog,
    st: &mut Stats,
) -> Vec<Violation> {
    let mut vs = Vec::new();
    if let Some(f) = rep_failure {
        vs.push(Violation::new(f.class(), op_name, input_class, f.message().to_string()).at(ci, log));
    }
    if log.worker_after_return {
        // Not a violation of any property by itself (a result cannot depend on a thread that shares nothing
        // with it, and a design with long-lived workers is legitimate): counted, so that it is visible.
        st.bump("note/worker_still_runnable_after_return");
    }
    if log.trace_diverged {
        st.bump("harness/trace_diverged");
    }
    vs
}
