//! C01 — every representation tracks the abstract digraph under any mutation
//! history. The injected fault is the *rejected call* (self-loop, endpoint
//! outside a fixed-order digraph) at arbitrary points of the history; the
//! invariant under fault is atomicity: the call panics and the digraph is
//! exactly what it was.

use super::draw_sched;
use crate::core::{Lane, Scenario, Stats, Tier, Violation};
use crate::dynrep::{construct, start_supported, DynG, ReprKind, Start, Step, ALL_KINDS};
use crate::exec::Conf;
use serde::{Deserialize, Serialize};
use vmodel::dg::{Dg, WDg};
use vmodel::gen::{draw_cpu, draw_density, random_dg, random_dg_on, random_vertex_set};
use vmodel::rng::{digest, Rng};

pub struct C01;

#[derive(Clone, Debug, Serialize, Deserialize)]
pub struct Body {
    pub kind: ReprKind,
    pub start: Start,
    pub steps: Vec<Step>,
}

pub const FAR: usize = 1 << 40;

/// Orders far above the usual test sizes (used once in ~150 histories, with sparse starts and few steps):
/// index arithmetic that only goes wrong when order^2 or order^3 crosses a machine-word power.
pub fn draw_giant_order(rng: &mut Rng) -> usize {
    if rng.chance(1, 2) {
        *rng.pick(&[511, 512, 513, 1023, 1024, 1025, 1625, 1649, 1740, 1812, 1999, 2000, 2047, 2048])
    } else {
        rng.range(300, 2100)
    }
}

pub fn draw_small_order(rng: &mut Rng, kind: ReprKind) -> usize {
    if kind == ReprKind::Matrix && rng.chance(1, 10) {
        // every residue of order^2 mod 64 and of the block count; cells beyond 2^12 (the row stride itself
        // crosses a 64-bit word)
        return if rng.chance(1, 3) { *rng.pick(&[63, 64, 65, 70]) } else { rng.range(13, 80) };
    }
    if kind == ReprKind::Matrix && rng.chance(1, 2) {
        // 64, 81, 121, 144 bits: word boundaries of the bit matrix
        return *rng.pick(&[8, 9, 11, 12]);
    }
    if kind != ReprKind::Matrix && rng.chance(1, 15) {
        // size thresholds (fast paths for "large" digraphs) live above the usual test sizes
        return rng.range(60, 140);
    }
    match rng.below(10) {
        0 => 1,
        1 => 2,
        2 => rng.range(13, 20),
        _ => rng.range(1, 12),
    }
}

fn draw_weight(rng: &mut Rng, kind: ReprKind) -> i64 {
    let signed = kind == ReprKind::WI;
    match rng.below(8) {
        0 => 0,
        1 => 1,
        2 => i64::MAX,
        3 if signed => i64::MIN,
        4 if signed => -(rng.below(1000) as i64),
        _ => rng.below(1000) as i64,
    }
}

fn with_weights(rng: &mut Rng, d: &Dg, kind: ReprKind) -> WDg {
    WDg {
        v: d.v.clone(),
        a: d.a.iter().map(|&a| (a, if kind.weighted() { draw_weight(rng, kind) } else { 0 })).collect(),
    }
}

pub fn draw_start(rng: &mut Rng, kind: ReprKind) -> Start {
    let n = draw_small_order(rng, kind);
    for _ in 0..20 {
        let s = match rng.below(10) {
            0 | 1 => Start::Empty { order: n },
            2 | 3 => {
                let gen = *rng.pick(&["empty", "complete", "circuit", "cycle", "path", "star", "wheel", "biclique", "trivial", "claw", "utility"]);
                match gen {
                    "wheel" => Start::Gen { gen: gen.into(), a: n.max(4), b: 0 },
                    "biclique" => Start::Gen { gen: gen.into(), a: rng.range(1, 5), b: rng.range(1, 5) },
                    _ => Start::Gen { gen: gen.into(), a: n, b: 0 },
                }
            }
            4 => {
                let gen = *rng.pick(&["tournament", "recursive_tree", "erdos_renyi"]);
                let p = *rng.pick(&[0.0, 0.1, 0.3, 0.5, 0.7, 1.0]);
                Start::Rand { gen: gen.into(), order: n, seed: rng.next_u64(), p_bits: f64::to_bits(p) }
            }
            5 | 6 | 7 => {
                let p = if n > 40 { *rng.pick(&[0, 10, 40]) } else { draw_density(rng) };
                let d = if kind == ReprKind::Map && rng.chance(1, 2) {
                    let vs = random_vertex_set(rng, n, 40);
                    random_dg_on(rng, &vs, p)
                } else {
                    random_dg(rng, n, p)
                };
                let via = *rng.pick(&["builder", "from_rows", "from_arcs", "convert:List", "convert:Map", "convert:Matrix", "convert:Edge"]);
                // conversions into the weighted list give weight 1
                let mut wd = with_weights(rng, &d, kind);
                if via.starts_with("convert:") && kind.weighted() {
                    for w in wd.a.values_mut() {
                        *w = 1;
                    }
                }
                Start::Model { d: wd, via: via.into() }
            }
            _ => {
                let p = if n > 40 { *rng.pick(&[0, 10, 40]) } else { draw_density(rng) };
                let d = if kind == ReprKind::Map && rng.chance(1, 2) {
                    let vs = random_vertex_set(rng, n, 40);
                    random_dg_on(rng, &vs, p)
                } else {
                    random_dg(rng, n, p)
                };
                let op = *rng.pick(&["complement", "converse", "union", "filter"]);
                let e = if op == "filter" {
                    // the vertices kept; never none
                    let mut keep: Vec<usize> = d.v.iter().copied().filter(|_| rng.chance(2, 3)).collect();
                    if keep.is_empty() {
                        keep.push(*d.v.iter().next().unwrap());
                    }
                    Dg::from_parts(keep, [])
                } else if d.is_contiguous() {
                    let m = rng.range(1, n + 2);
                    let q = draw_density(rng);
                    random_dg(rng, m, q)
                } else {
                    let k = rng.range(1, n + 1);
                    let vs = random_vertex_set(rng, k, 40);
                    let q = draw_density(rng);
                    random_dg_on(rng, &vs, q)
                };
                Start::Derived { op: op.into(), d, e }
            }
        };
        if start_supported(kind, &s) {
            return s;
        }
    }
    Start::Empty { order: n }
}

/// Order the fixed-order representations will report for this start (an
/// estimate used only to aim the step arguments).
pub fn start_order_hint(start: &Start) -> usize {
    match start {
        Start::Empty { order } | Start::Rand { order, .. } => *order,
        Start::Gen { gen, a, b } => match gen.as_str() {
            "biclique" => a + b,
            "trivial" => 1,
            "claw" => 4,
            "utility" => 6,
            _ => *a,
        },
        Start::Model { d, .. } => d.v.iter().max().map_or(1, |m| m.saturating_add(1)).min(d.v.len() + 40),
        Start::Derived { d, e, op } => {
            let a = d.v.iter().max().map_or(1, |m| m.saturating_add(1)).min(d.v.len() + 40);
            let b = e.v.iter().max().map_or(1, |m| m.saturating_add(1)).min(e.v.len() + 40);
            if op == "union" {
                a.max(b)
            } else {
                a
            }
        }
    }
}

pub fn draw_steps(rng: &mut Rng, kind: ReprKind, n: usize, len: usize) -> Vec<Step> {
    let reject_rate = rng.range(100, 250); // per mille
    let mut steps: Vec<Step> = Vec::new();
    let mut seen: Vec<(usize, usize)> = Vec::new();
    let in_range = |rng: &mut Rng| -> (usize, usize) {
        if n < 2 {
            return (0, if kind == ReprKind::Map { 1 } else { 0 });
        }
        let u = rng.below(n);
        let mut v = rng.below(n - 1);
        if v >= u {
            v += 1;
        }
        (u, v)
    };
    for i in 0..len {
        let bad = rng.below(1000) < reject_rate || (i == len - 1 && len >= 3);
        let (u, v) = if bad {
            // just outside, far outside, and where index arithmetic with the order leaves the machine word:
            // floor(MAX / n) is the largest id whose product with the order still fits
            let q = usize::MAX / n.max(1);
            let far = *rng.pick(&[n, n + 1, n + 2, FAR, usize::MAX, n, n + 1, usize::MAX, q, q.saturating_add(1), q - 1, 1 << 63, 1 << 32]);
            match rng.below(4) {
                0 => {
                    let x = rng.below(n.max(1));
                    (x, x)
                }
                1 => (far, rng.below(n.max(1))),
                2 => (rng.below(n.max(1)), far),
                _ => (far, far.wrapping_add(1)),
            }
        } else if !seen.is_empty() && rng.chance(1, 4) {
            *rng.pick(&seen)
        } else if !seen.is_empty() && rng.chance(1, 8) {
            let (a, b) = *rng.pick(&seen);
            (b, a)
        } else {
            in_range(rng)
        };
        let r = rng.below(100);
        let step = if kind.weighted() {
            if r < 55 {
                Step::AddW { u, v, w: draw_weight(rng, kind) }
            } else {
                Step::Remove { u, v }
            }
        } else if kind == ReprKind::Matrix {
            if r < 40 {
                Step::Add { u, v }
            } else if r < 72 {
                Step::Remove { u, v }
            } else {
                Step::Toggle { u, v }
            }
        } else if r < 58 {
            Step::Add { u, v }
        } else {
            Step::Remove { u, v }
        };
        if !bad {
            seen.push((u, v));
        }
        steps.push(step);
    }
    steps
}

pub enum Expect {
    Done(Option<bool>),
    Reject,
}

/// The abstract digraph's transition for one step.
pub fn model_apply(kind: ReprKind, m: &mut WDg, s: &Step) -> Expect {
    let (u, v) = s.uv();
    let n = m.v.len();
    let admissible = if kind.fixed_order() { u != v && u < n && v < n } else { u != v };
    match *s {
        Step::Remove { .. } => Expect::Done(Some(m.a.remove(&(u, v)).is_some())),
        Step::Add { .. } | Step::AddW { .. } | Step::Toggle { .. } if !admissible => Expect::Reject,
        Step::Add { .. } => {
            let _ = m.v.insert(u);
            let _ = m.v.insert(v);
            let _ = m.a.entry((u, v)).or_insert(0);
            Expect::Done(None)
        }
        Step::AddW { w, .. } => {
            let w = if kind == ReprKind::WU { w.max(0) } else { w };
            let _ = m.a.insert((u, v), w);
            Expect::Done(None)
        }
        Step::Toggle { .. } => {
            if m.a.remove(&(u, v)).is_none() {
                let _ = m.a.insert((u, v), 0);
            }
            Expect::Done(None)
        }
    }
}

fn clamp_steps(kind: ReprKind, steps: &mut [Step]) {
    // usize weights: negative draws are stored as their absolute value
    if kind == ReprKind::WU {
        for s in steps {
            if let Step::AddW { w, .. } = s {
                if *w < 0 {
                    *w = w.checked_neg().unwrap_or(i64::MAX);
                }
            }
        }
    }
}

/// Probe ids: the vertices plus ids just outside V.
fn probe_ids(m: &WDg, rng_seed: u64) -> Vec<usize> {
    let mut ids: Vec<usize> = m.v.iter().copied().collect();
    if ids.len() > 12 {
        // deterministic thinning
        let mut r = Rng::new(rng_seed);
        r.shuffle(&mut ids);
        ids.truncate(12);
    }
    let max = m.v.iter().max().copied().unwrap_or(0);
    ids.push(max.saturating_add(1));
    ids.push(max.saturating_add(2));
    ids.push(usize::MAX);
    // ids whose product with the order is at the edge of the machine word
    let q = usize::MAX / m.v.len().max(1);
    ids.push(q);
    ids.push(q.saturating_add(1));
    ids.sort_unstable();
    ids.dedup();
    ids
}

/// Run a history against the model; shared with C20. Returns the final
/// digraph and model when no violation occurred.
pub fn run_history(
    kind: ReprKind,
    g: &mut DynG,
    model: &mut WDg,
    steps: &[Step],
    st: &mut Stats,
    vs: &mut Vec<Violation>,
    label: &str,
) -> bool {
    run_history_sparse(kind, g, model, steps, st, vs, label, 1)
}

/// `run_history` that compares the full observation with the model only after every `every`-th step and
/// after the last one (long fix-up histories of C20; return values and panics are still checked per step).
#[allow(clippy::too_many_arguments)]
pub fn run_history_sparse(
    kind: ReprKind,
    g: &mut DynG,
    model: &mut WDg,
    steps: &[Step],
    st: &mut Stats,
    vs: &mut Vec<Violation>,
    label: &str,
    every: usize,
) -> bool {
    let rname = kind.name();
    let mut effective = 0usize;
    for (i, s) in steps.iter().enumerate() {
        let op = format!("{rname}::{}", s.op_name());
        // what the abstract digraph says about this step, before anything is executed
        let (u0, v0) = s.uv();
        let n0 = model.v.len();
        let admissible = if kind.fixed_order() { u0 != v0 && u0 < n0 && v0 < n0 } else { u0 != v0 };
        let must_reject = !matches!(s, Step::Remove { .. }) && !admissible;
        // the state before the call is only needed to judge a rejected call
        let (before_obs, before) = if must_reject { (Some(g.observe()), Some(g.clone())) } else { (None, None) };
        let prev_vertices = model.v.len();
        let prev_weight = model.a.get(&(u0, v0)).copied();
        let prev_size = model.a.len();
        let exp = model_apply(kind, model, s);
        let changed = model.a.len() != prev_size || model.v.len() != prev_vertices || model.a.get(&(u0, v0)).copied() != prev_weight;
        let res = g.apply(s);
        match (&exp, &res) {
            (Expect::Reject, Ok(_)) => {
                vs.push(Violation::new("missing_panic", &op, "rejected", format!("{label}step {i} {s:?} must be rejected (order {}), but returned", model.v.len())));
                return false;
            }
            (Expect::Reject, Err(_)) => {
                st.bump("fault/rejected_call");
                let (u, v) = s.uv();
                st.bump(if u == v { "fault/rejected_call/self_loop" } else { "fault/rejected_call/out_of_range" });
                if effective >= 1 {
                    st.bump("probe/rejected_call_after_successful_mutation");
                }
                if effective >= 3 {
                    st.bump("probe/rejected_call_after_3_successful_mutations");
                }
                if Some(g.observe()) != before_obs || Some(&*g) != before.as_ref() {
                    vs.push(Violation::new("rejected_call_changed_state", &op, "rejected", format!("{label}step {i} {s:?} panicked but the digraph changed: before {:?} after {:?}", before_obs, g.observe())));
                    return false;
                }
            }
            (Expect::Done(_), Err(m)) => {
                vs.push(Violation::new("unexpected_panic", &op, "valid", format!("{label}step {i} {s:?} is valid (order {}) but panicked: {m}", model.v.len())));
                return false;
            }
            (Expect::Done(want), Ok(got)) => {
                if want != got {
                    vs.push(Violation::new("wrong_return", &op, "valid", format!("{label}step {i} {s:?} returned {got:?}, the model says {want:?}")));
                    return false;
                }
                if changed {
                    effective += 1;
                }
                if model.v.len() > prev_vertices {
                    st.bump("probe/map_vertex_growth");
                }
                if let Step::AddW { w, .. } = *s {
                    if prev_weight.is_some_and(|old| old != w) {
                        st.bump("probe/weighted_readd_replaces_weight");
                    }
                }
                if let Step::Remove { u, v } = *s {
                    if !model.v.contains(&u) || !model.v.contains(&v) {
                        st.bump("probe/remove_with_id_outside_V");
                    }
                }
            }
        }
        if every > 1 && (i + 1) % every != 0 && i + 1 != steps.len() {
            continue;
        }
        // the digraph after the step must show exactly the model
        let obs = g.observe();
        match obs.to_wdg() {
            Err(why) => {
                vs.push(Violation::new("malformed_listing", &op, "valid", format!("{label}after step {i} {s:?}: {why}")));
                return false;
            }
            Ok(got) => {
                if got != *model {
                    vs.push(Violation::new("state_mismatch", &op, "valid", format!("{label}after step {i} {s:?}: shows V={:?} A={:?}, model V={:?} A={:?}", got.v, got.a, model.v, model.a)));
                    return false;
                }
            }
        }
        let ids = probe_ids(model, i as u64);
        for &a in &ids {
            for &b in &ids {
                let want = model.a.contains_key(&(a, b));
                if g.has_arc(a, b) != want {
                    vs.push(Violation::new("has_arc_mismatch", &format!("{rname}::has_arc"), "valid", format!("{label}after step {i} {s:?}: has_arc({a},{b}) = {}, model says {want}", !want)));
                    return false;
                }
                if kind.weighted() && g.arc_weight(a, b) != model.a.get(&(a, b)).copied() {
                    vs.push(Violation::new("arc_weight_mismatch", &format!("{rname}::arc_weight"), "valid", format!("{label}after step {i} {s:?}: arc_weight({a},{b}) = {:?}, model says {:?}", g.arc_weight(a, b), model.a.get(&(a, b)))));
                    return false;
                }
            }
        }
        // further observers of the same arc set, at up to six vertices: neighbourhoods and degrees
        let mut looked = 0;
        for &u in ids.iter().filter(|u| model.v.contains(u)) {
            if looked == 6 {
                break;
            }
            looked += 1;
            let want_out: Vec<(usize, i64)> = model.a.range((u, 0)..=(u, usize::MAX)).map(|(&(_, w), &x)| (w, if kind.weighted() { x } else { 0 })).collect();
            let want_in: Vec<usize> = model.a.keys().filter(|&&(_, w)| w == u).map(|&(t, _)| t).collect();
            let want = crate::dynrep::Around { outdegree: want_out.len(), indegree: want_in.len(), degree: want_out.len() + want_in.len(), out: want_out, inn: want_in };
            match g.around(u) {
                Err(m) => {
                    vs.push(Violation::new("unexpected_panic", &format!("{rname}::neighbourhood"), "valid", format!("{label}after step {i} {s:?}: observing the neighbourhood of vertex {u} panicked: {m}")));
                    return false;
                }
                Ok(got) if got != want => {
                    let what = if got.out != want.out { "out_neighbors" } else if got.inn != want.inn { "in_neighbors" } else if got.outdegree != want.outdegree { "outdegree" } else if got.indegree != want.indegree { "indegree" } else { "degree" };
                    vs.push(Violation::new("neighbourhood_mismatch", &format!("{rname}::{what}"), "valid",
                        format!("{label}after step {i} {s:?}: around vertex {u} the digraph shows outdegree {} indegree {} degree {} and {} / {} listed out- / in-neighbours; the arc set it lists says {} {} {} and {} / {}",
                            got.outdegree, got.indegree, got.degree, got.out.len(), got.inn.len(), want.outdegree, want.indegree, want.degree, want.out.len(), want.inn.len())));
                    return false;
                }
                Ok(_) => {}
            }
        }
    }
    if effective >= 3 {
        st.bump("probe/history_with_3_or_more_effective_mutations");
    }
    true
}

impl Lane for C01 {
    const ID: &'static str = "C01";
    type Body = Body;

    fn draw(rng: &mut Rng, tier: Tier, _run_index: u64) -> Scenario<Body> {
        let kind = *rng.pick(&ALL_KINDS);
        if rng.chance(1, 150) {
            // giant, sparse: an empty start of order 300..2100, arcs added at and around the corners
            let n = draw_giant_order(rng);
            let mut steps = Vec::new();
            // AdjacencyMap admits new vertices: half of its giants grow by ids at and just above the order
            // (leaving holes), used as tails and as heads, in any order
            let growing = kind == ReprKind::Map && rng.chance(1, 2);
            let corner = |rng: &mut Rng| -> usize {
                if growing && rng.chance(1, 2) {
                    return n + rng.below(4);
                }
                match rng.below(8) {
                    0 => 0,
                    1 => n - 1,
                    2 => n - 2,
                    3 => n / 2,
                    4 | 5 => {
                        // powers of two and their neighbours
                        let k = rng.range(5, 11);
                        ((1usize << k) + rng.below(3)).saturating_sub(1).min(n - 1)
                    }
                    _ => rng.below(n),
                }
            };
            for _ in 0..rng.range(6, 14) {
                let (u, mut v) = (corner(rng), corner(rng));
                if u == v {
                    v = (v + 1) % n;
                }
                steps.push(if kind.weighted() {
                    Step::AddW { u, v, w: draw_weight(rng, kind) }
                } else if rng.chance(1, 5) {
                    Step::Remove { u, v }
                } else {
                    Step::Add { u, v }
                });
            }
            steps.push(Step::Add { u: n, v: 0 });
            if kind.weighted() {
                let _ = steps.pop();
                steps.push(Step::AddW { u: 0, v: n, w: 1 });
            }
            clamp_steps(kind, &mut steps);
            let conf = Conf { cpu: draw_cpu(rng, n), sched: draw_sched(rng, 16), trace: None };
            return Scenario { body: Body { kind, start: Start::Empty { order: n }, steps }, confs: vec![conf] };
        }
        if rng.chance(1, 1500) {
            // giant *and* dense: more than 2^17 arcs (size thresholds count arcs, not vertices)
            let n = *rng.pick(&[363, 400, 448, 512, 513]);
            let start = if kind.weighted() {
                let d = Dg::complete(n);
                Start::Model { d: with_weights(rng, &d, kind), via: "builder".into() }
            } else if rng.chance(2, 3) {
                Start::Gen { gen: "complete".into(), a: n, b: 0 }
            } else {
                Start::Rand { gen: "erdos_renyi".into(), order: n, seed: rng.next_u64(), p_bits: f64::to_bits(0.93) }
            };
            if start_supported(kind, &start) {
                let mut steps = Vec::new();
                for _ in 0..rng.range(4, 10) {
                    let (r1, r2) = (rng.below(n), rng.below(n));
                    let u = *rng.pick(&[0, 1, n / 2, n - 2, n - 1, r1]);
                    let mut v = *rng.pick(&[0, 1, n / 2, n - 2, n - 1, r2, u + 1, n]);
                    if rng.chance(4, 5) && u == v {
                        v = (v + 1) % n;
                    }
                    steps.push(if rng.chance(2, 3) {
                        Step::Remove { u, v }
                    } else if kind.weighted() {
                        Step::AddW { u, v, w: draw_weight(rng, kind) }
                    } else {
                        Step::Add { u, v }
                    });
                }
                clamp_steps(kind, &mut steps);
                let conf = Conf { cpu: draw_cpu(rng, n), sched: draw_sched(rng, 16), trace: None };
                return Scenario { body: Body { kind, start, steps }, confs: vec![conf] };
            }
        }
        let start = draw_start(rng, kind);
        let n = start_order_hint(&start);
        let maxlen = match tier {
            Tier::Quick => 40,
            Tier::Thorough => 60,
        };
        let len = if rng.chance(1, 3) { rng.range(3, 8) } else { rng.range(5, maxlen) };
        let mut steps = draw_steps(rng, kind, n, len);
        clamp_steps(kind, &mut steps);
        let conf = Conf { cpu: draw_cpu(rng, n), sched: draw_sched(rng, n), trace: None };
        Scenario { body: Body { kind, start, steps }, confs: vec![conf] }
    }

    fn run(sc: &Scenario<Body>, st: &mut Stats) -> Vec<Violation> {
        let Body { kind, start, steps } = &sc.body;
        let kind = *kind;
        let mut vs = Vec::new();
        st.bump(&format!("repr/{}", kind.name()));
        st.bump(&format!("start/{}", start.label()));
        let c = construct(kind, start, &sc.confs[0]);
        if let Some(log) = &c.exec {
            st.exec(&sc.confs[0], log);
        } else {
            st.sequential_checks += 1;
        }
        let ctor = format!("{}::{}", kind.name(), start.label());
        let mut g = match c.g {
            Ok(g) => g,
            Err(m) => {
                vs.push(Violation::new("unexpected_panic", &ctor, "start", format!("constructing the start digraph failed: {m}")));
                return vs;
            }
        };
        // the model starts from what the start digraph shows (constructors are judged by C11/C14/C15/C16;
        // here it must only be a well-formed digraph)
        let mut model = match g.observe().to_wdg() {
            Ok(m) => m,
            Err(why) => {
                vs.push(Violation::new("malformed_listing", &ctor, "start", why));
                return vs;
            }
        };
        if model.v.is_empty() {
            vs.push(Violation::new("start_without_vertices", &ctor, "start", "the start digraph shows no vertex at all".into()));
            return vs;
        }
        if kind.fixed_order() && !model.unweighted().is_contiguous() {
            vs.push(Violation::new("malformed_listing", &ctor, "start", format!("fixed-order representation shows V = {:?}", model.v)));
            return vs;
        }
        let n = model.v.len();
        if kind == ReprKind::Matrix && (n * n) % 64 != 0 {
            st.bump("probe/matrix_order_squared_not_multiple_of_64");
        }
        // with 10^5 arcs the full listing is compared after every fourth step and after the last one
        let every = if model.a.len() > 50_000 { 4 } else { 1 };
        if model.a.len() > (1 << 17) {
            st.bump("probe/history_on_more_than_2^17_arcs");
        }
        let ok = run_history_sparse(kind, &mut g, &mut model, steps, st, &mut vs, "", every);
        if ok {
            // == against a freshly built digraph with the same (V, A, w)
            if !model.v.is_empty() && (kind == ReprKind::Map || model.unweighted().is_contiguous()) {
                let fresh = match crate::reps::guard(|| DynG::build(kind, &model)) {
                    Ok(f) => f,
                    Err(m) => {
                        vs.push(Violation::new("unexpected_panic", &format!("{}::build", kind.name()), "valid", format!("building V={:?} A={:?} through the mutation API panicked: {m}", model.v, model.a)));
                        return vs;
                    }
                };
                if fresh != g {
                    vs.push(Violation::new("not_equal_to_fresh_build", &format!("{}::eq", kind.name()), "valid",
                        format!("after the history the digraph shows V={:?} A={:?} but differs (==) from a digraph freshly built with exactly that content", model.v, model.a)));
                }
            }
            let rejected = steps.iter().filter(|s| {
                let (u, v) = s.uv();
                !matches!(s, Step::Remove { .. }) && (u == v || (kind.fixed_order() && (u >= n || v >= n)))
            }).count();
            if steps.len() >= 3 && rejected >= 1 {
                st.case(&[digest(serde_json::to_string(&sc.body).unwrap().as_bytes())]);
            }
        }
        vs
    }

    fn shrink(body: &Body) -> Vec<Body> {
        let mut out = Vec::new();
        let n = body.steps.len();
        if n > 1 {
            out.push(Body { steps: body.steps[..n / 2].to_vec(), ..body.clone() });
            out.push(Body { steps: body.steps[n / 2..].to_vec(), ..body.clone() });
        }
        for i in (0..n).rev() {
            let mut s = body.steps.clone();
            let _ = s.remove(i);
            out.push(Body { steps: s, ..body.clone() });
        }
        if !matches!(body.start, Start::Empty { .. }) {
            let order = start_order_hint(&body.start).max(1);
            out.push(Body { start: Start::Empty { order }, ..body.clone() });
        }
        if let Start::Empty { order } = body.start {
            for o in [order / 2, order.saturating_sub(1)] {
                if o >= 1 && o < order {
                    out.push(Body { start: Start::Empty { order: o }, ..body.clone() });
                }
            }
        }
        out
    }
}
