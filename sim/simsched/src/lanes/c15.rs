//! C15 — seeded random generators are deterministic and always structurally
//! valid, for every worker-thread count and interleaving.

use super::c17::{draw_order, draw_order_tail, draw_p, draw_seed, run_top};
use super::draw_sched;
use crate::core::{Lane, Scenario, Stats, Tier, Violation};
use crate::exec::{run_exec, Conf};
use crate::ops::{observe, Obs, TOp};
use crate::reps::{guard, Rep};
use crate::sched::{SchedKind, SchedSpec};
use graaf::gen::prng::Xoshiro256StarStar;
use graaf::{AdjacencyList, AdjacencyMap, AdjacencyMatrix, EdgeList, ErdosRenyi, RandomRecursiveTree, RandomTournament};
use serde::{Deserialize, Serialize};
use vmodel::dg::Dg;
use vmodel::gen::Cpu;
use vmodel::rng::Rng;

pub struct C15;

#[derive(Clone, Debug, Serialize, Deserialize)]
pub struct Body {
    /// "tournament" | "recursive_tree" | "erdos_renyi"
    pub gen: String,
    pub order: usize,
    pub seed: u64,
    pub p_bits: u64,
    pub p: String,
}

fn p_of(b: &Body) -> f64 {
    f64::from_bits(b.p_bits)
}

fn admissible(b: &Body) -> bool {
    b.order >= 1 && (b.gen != "erdos_renyi" || (0.0..=1.0).contains(&p_of(b)))
}

fn valid(b: &Body, o: &Obs) -> Result<(), String> {
    let d = o.to_dg()?;
    if d.v != (0..b.order).collect() {
        return Err(format!("vertex set {:?} is not 0..{}", d.v, b.order));
    }
    match b.gen.as_str() {
        "tournament" => {
            if !d.is_tournament() {
                return Err(format!("not a tournament: {:?}", d.a));
            }
        }
        "recursive_tree" => {
            if !d.is_recursive_tree() {
                return Err(format!("not a recursive tree (vertex 0 without out-arc, every u>=1 exactly one out-arc to a smaller vertex): {:?}", d.a));
            }
        }
        _ => {
            let p = p_of(b);
            if p == 0.0 && !d.a.is_empty() {
                return Err(format!("p = 0 but {} arcs", d.a.len()));
            }
            if p == 1.0 && d != Dg::complete(b.order) {
                return Err(format!("p = 1 but {} of {} arcs", d.a.len(), b.order * (b.order - 1)));
            }
        }
    }
    Ok(())
}

fn call<R>(b: &Body) -> R
where
    R: Rep + RandomTournament + RandomRecursiveTree + ErdosRenyi,
{
    match b.gen.as_str() {
        "tournament" => R::random_tournament(b.order, b.seed),
        "recursive_tree" => R::random_recursive_tree(b.order, b.seed),
        _ => R::erdos_renyi(b.order, p_of(b), b.seed),
    }
}

fn check_rep<R>(b: &Body, st: &mut Stats, vs: &mut Vec<Violation>)
where
    R: Rep + RandomTournament + RandomRecursiveTree + ErdosRenyi,
{
    st.sequential_checks += 1;
    let name = format!("{}::{}", R::NAME, b.gen);
    let got = guard(|| {
        let x = call::<R>(b);
        let y = call::<R>(b);
        (x.obs(), x == y && x.obs() == y.obs())
    });
    if admissible(b) {
        match got {
            Err(m) => vs.push(Violation::new("unexpected_panic", &name, "admissible", format!("{b:?} panicked: {m}"))),
            Ok((o, same)) => {
                if let Err(why) = valid(b, &o) {
                    vs.push(Violation::new("invalid_output", &name, "admissible", format!("{b:?}: {why}")));
                }
                if !same {
                    vs.push(Violation::new("not_repeatable", &name, "admissible", format!("{b:?}: two calls with equal arguments differ")));
                }
            }
        }
    } else {
        st.bump("fault/inadmissible_parameter");
        if let Ok((o, _)) = got {
            vs.push(Violation::new("missing_panic", &name, "inadmissible", format!("{b:?} must panic but returned a digraph of order {}", o.order)));
        }
    }
}

impl Lane for C15 {
    const ID: &'static str = "C15";
    type Body = Body;

    fn draw(rng: &mut Rng, tier: Tier, _run_index: u64) -> Scenario<Body> {
        let max = match tier {
            Tier::Quick => 40,
            Tier::Thorough => 80,
        };
        let max = if rng.chance(1, 5) { max } else { max.min(24) };
        let gen = *rng.pick(&["tournament", "tournament", "recursive_tree", "erdos_renyi", "erdos_renyi"]);
        let mut order = if rng.chance(1, 200) {
            // around the multiples of 512 (batch sizes) and other giants
            *rng.pick(&[511, 512, 513, 514, 600])
        } else if rng.chance(1, 2) {
            draw_order_tail(rng, max).min(600)
        } else {
            draw_order(rng, max)
        };
        let mut p = draw_p(rng);
        if order > 300 && rng.chance(1, 2) {
            p = *rng.pick(&[0.0, 1.0, 1.0]);
        }
        // injected faults: inadmissible arguments (must panic)
        match rng.below(24) {
            0 => order = 0,
            1 if gen == "erdos_renyi" => {
                p = *rng.pick(&[-0.1, 1.0 + f64::EPSILON, 1.5, -f64::MIN_POSITIVE, f64::NAN, f64::INFINITY, f64::NEG_INFINITY, -1.0]);
            }
            _ => {}
        }
        let seed = draw_seed(rng);
        if gen == "erdos_renyi" && (0.0..=1.0).contains(&p) && rng.chance(1, 2) {
            // a draw that is exactly 0.0 matters at the ends of the p range
            let boundary = (0..4u64).any(|t| {
                let f = Xoshiro256StarStar::new(seed.wrapping_add(t)).next_f64();
                f == 0.0 || f == 1.0 - f64::EPSILON || f == 0.5
            });
            if boundary {
                p = *rng.pick(&[1.0, 0.0, f64::MIN_POSITIVE, 1.0 - f64::EPSILON / 2.0]);
            }
        }
        let body = Body { gen: gen.to_string(), order, seed, p_bits: p.to_bits(), p: format!("{p:?}") };
        // >= 4 schedules per (arguments, CPU count), one of them stalling a drawn worker
        let per = match tier {
            Tier::Quick => 4,
            Tier::Thorough => 6,
        };
        let rows = order.max(1);
        let mut cpus: Vec<Cpu> = vec![Some(1), None, Some(16), Some(rows.div_ceil(2).max(1)), Some(rows.max(2) - 1)];
        if tier == Tier::Thorough {
            cpus.extend([Some(2), Some(3), Some(rows + 1), Some(33), Some(rng.range(2, 15))]);
        } else {
            cpus.push(Some(rng.range(2, 15)));
        }
        cpus.dedup();
        let mut confs = Vec::new();
        for cpu in cpus {
            for k in 0..per {
                let sched = if k == 0 {
                    let workers = cpu.unwrap_or(1).min(rows).max(1);
                    {
                        let victim = rng.below(workers) as u32;
                        let seed = rng.next_u64();
                        SchedSpec { kind: SchedKind::StallOne { victim }, seed, hold: crate::sched::hold_for_seed(seed), callers: crate::sched::callers_for_seed(seed) }
                    }
                } else {
                    draw_sched(rng, rows)
                };
                confs.push(Conf { cpu, sched, trace: None });
            }
        }
        if order > 200 {
            // one lock per arc: keep the giants to a few configurations
            confs = confs.into_iter().step_by(6).collect();
        }
        Scenario { body, confs }
    }

    fn run(sc: &Scenario<Body>, st: &mut Stats) -> Vec<Violation> {
        let b = &sc.body;
        let mut vs = Vec::new();
        st.bump(&format!("gen/{}", b.gen));
        if b.order >= 2 && admissible(b) {
            st.case(&[vmodel::rng::digest(serde_json::to_string(b).unwrap().as_bytes())]);
        }
        check_rep::<AdjacencyList>(b, st, &mut vs);
        check_rep::<AdjacencyMatrix>(b, st, &mut vs);
        check_rep::<EdgeList>(b, st, &mut vs);
        match b.gen.as_str() {
            "recursive_tree" => check_rep::<AdjacencyMap>(b, st, &mut vs),
            _ if admissible(b) => {
                // the threaded AdjacencyMap generators: every configuration, two calls per execution
                let op = if b.gen == "tournament" {
                    TOp::MapRandomTournament { order: b.order, seed: b.seed }
                } else {
                    if p_of(b) > 0.5 {
                        st.bump("probe/erdos_renyi_via_complement");
                    }
                    TOp::MapErdosRenyi { order: b.order, p_bits: b.p_bits, p: b.p.clone(), seed: b.seed }
                };
                vs.extend(run_top(&op, &sc.confs, st, "admissible"));
            }
            _ => {
                // inadmissible arguments must panic before any worker is started
                st.bump("fault/inadmissible_parameter");
                let b2 = b.clone();
                let name = format!("AdjacencyMap::{}", b.gen);
                let rep = run_exec(&sc.confs[0], move || {
                    if b2.gen == "tournament" {
                        observe(&AdjacencyMap::random_tournament(b2.order, b2.seed))
                    } else {
                        observe(&AdjacencyMap::erdos_renyi(b2.order, p_of(&b2), b2.seed))
                    }
                });
                st.exec(&sc.confs[0], &rep.log);
                if let Some(o) = rep.value {
                    vs.push(Violation::new("missing_panic", &name, "inadmissible", format!("{b:?} must panic but returned a digraph of order {}", o.order)));
                }
                if rep.log.max_task > 0 {
                    // not required by the property (it only asks for the panic): counted
                    st.bump("note/workers_started_before_inadmissible_arguments_were_rejected");
                }
            }
        }
        // next_f64 in [0, 1) on the draws of this seed (pure; counted with the sequential checks)
        st.sequential_checks += 1;
        if Xoshiro256StarStar::new(b.seed).next().is_some_and(|w| w <= 3 || w >= u64::MAX - 1) {
            st.bump("probe/seed_whose_first_output_word_is_0..3_or_MAX");
        }
        if Xoshiro256StarStar::new(b.seed).next_f64() == 1.0 - f64::EPSILON {
            st.bump("probe/seed_whose_first_draw_is_the_largest_possible");
            if b.gen == "erdos_renyi" && p_of(b) == 1.0 {
                st.bump("probe/p_1_with_a_draw_equal_to_the_largest_possible");
            }
        }
        if Xoshiro256StarStar::new(b.seed).next_f64() == 0.0 {
            st.bump("probe/seed_whose_first_draw_is_exactly_zero");
            if b.gen == "erdos_renyi" && p_of(b) == 1.0 {
                st.bump("probe/p_1_with_a_draw_equal_to_zero");
            }
        }
        let mut x = Xoshiro256StarStar::new(b.seed);
        for i in 0..256 {
            let f = x.next_f64();
            if !(0.0..1.0).contains(&f) {
                vs.push(Violation::new("invalid_output", "Xoshiro256StarStar::next_f64", "", format!("seed {} draw {i}: {f:?} not in [0,1)", b.seed)));
                break;
            }
        }
        vs
    }

    fn shrink(body: &Body) -> Vec<Body> {
        let mut out = Vec::new();
        for order in [body.order / 2, body.order.saturating_sub(1)] {
            if order < body.order && (order >= 1) == (body.order >= 1) {
                out.push(Body { order, ..body.clone() });
            }
        }
        if body.seed != 0 {
            out.push(Body { seed: 0, ..body.clone() });
        }
        out
    }
}
