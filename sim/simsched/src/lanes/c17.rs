//! C17 — results never depend on the number of worker threads or their
//! interleaving.

use super::{draw_confs, exec_top, liveness_violations, relation_class};
use crate::core::{Lane, Scenario, Stats, Tier, Violation};
use crate::ops::{check_random_valid, compare, Out, TOp};
use crate::shrink::shrink_top;
use serde::{Deserialize, Serialize};
use std::collections::{BTreeMap, BTreeSet};
use vmodel::dg::Dg;
use vmodel::gen::{draw_density, near_semicomplete, random_dg, random_dg_on, random_vertex_set};
use vmodel::rng::{digest, Rng};

pub struct C17;

#[derive(Clone, Debug, Serialize, Deserialize)]
pub struct Body {
    pub op: TOp,
}

/// Orders chosen around a focus thread count so that rows < t, = t, just
/// above, far above, and non-multiples of the chunk size all occur.
pub fn draw_order(rng: &mut Rng, max: usize) -> usize {
    let t = *rng.pick(&[1, 2, 3, 4, 5, 6, 7, 8, 9, 10, 11, 12, 13, 14, 15, 16, 17, 32, 33]);
    let o = match rng.below(10) {
        0 => t.max(2) - 1,
        1 => t,
        2 => t + 1,
        3 => 2 * t - 1,
        4 => 2 * t,
        5 => 2 * t + 1,
        6 => 3 * t + 1,
        7 => rng.range(1, 6),
        _ => rng.range(1, max),
    };
    o.clamp(1, max)
}

/// `draw_order` with a heavy tail: once in 25 draws an order around the powers of two above the word
/// size (63..=300), whatever the tier: size thresholds (a 64-bit word, "at least 64 entries per
/// worker") are where rewritten code goes wrong.
pub fn draw_order_tail(rng: &mut Rng, max: usize) -> usize {
    if rng.chance(1, 120) {
        // "giant" inputs (callers keep them sparse and cap the quadratic operations): thresholds such as
        // "one worker per 256 rows", 32-bit products of the order, powers of two times an odd factor
        return if rng.chance(1, 2) {
            *rng.pick(&[511, 512, 513, 521, 767, 768, 769, 1000, 1023, 1024, 1025, 1649, 1999, 2000])
        } else {
            rng.range(300, 2100)
        };
    }
    if rng.chance(1, 25) {
        if rng.chance(1, 2) {
            *rng.pick(&[63, 64, 65, 66, 95, 96, 127, 128, 129, 130, 160, 191, 192, 193, 256, 257, 300])
        } else {
            // every residue class of the order
            rng.range(21, 140)
        }
    } else {
        draw_order(rng, max)
    }
}

/// An order from the giant band only: half of the draws on and around multiples of 64 / 256 / 512 and
/// powers of two, half anywhere in 300..=cap.
pub fn draw_giant(rng: &mut Rng, cap: usize) -> usize {
    let specials: Vec<usize> = [319, 320, 321, 383, 384, 385, 448, 511, 512, 512, 513, 521, 576, 640, 767, 768, 769, 1000, 1023, 1024, 1024, 1025, 1088, 1535, 1536, 1537, 1649, 1999, 2000, 2047, 2048]
        .iter()
        .copied()
        .filter(|&x| x <= cap)
        .collect();
    if rng.chance(1, 2) && !specials.is_empty() {
        *rng.pick(&specials)
    } else {
        rng.range(300, cap.max(300))
    }
}

pub fn draw_p(rng: &mut Rng) -> f64 {
    match rng.below(10) {
        0 => 0.0,
        1 => 1.0,
        2 => 0.5,
        3 => 0.5 + f64::EPSILON,
        4 => 0.5 - f64::EPSILON,
        5 | 6 => 0.5 + rng.f64() / 2.0,
        _ => rng.f64() / 2.0,
    }
}

/// Two operands for AdjacencyMap::union with related vertex sets.
/// Two contiguous operands 0..n1 and 0..n2 (n1 < n2) sized so that, if the merged key sequence of n1 + n2
/// entries is cut into `t` pieces at k*(n1+n2)/t, one cut falls exactly between the two copies of the last
/// key of the smaller operand (where one input of a merge is exhausted and a shared key straddles the cut).
/// Returns the pair and the `t` it was sized for.
pub fn draw_aligned_pair(rng: &mut Rng, max: usize) -> Option<(Dg, Dg, usize)> {
    for _ in 0..40 {
        let t = rng.range(2, 16);
        let total = if rng.chance(1, 4) { rng.range(512, 1800) } else { rng.range(2 * t, (4 * max).max(2 * t + 2)) };
        let k = rng.range(1, t - 1);
        let c = k * total / t;
        if c % 2 == 0 {
            continue;
        }
        let n1 = (c + 1) / 2;
        if n1 == 0 || total <= 2 * n1 {
            continue;
        }
        let n2 = total - n1;
        // sparse when large; the last shared vertex gets out-arcs in both operands so that losing either
        // copy is visible
        let p = if total > 400 { 3 } else { 200 };
        let mut d = random_dg(rng, n1, p);
        let mut e = random_dg(rng, n2, p);
        if n1 >= 2 {
            let _ = d.a.insert((n1 - 1, 0));
            let _ = e.a.insert((n1 - 1, n1 - 2));
            let _ = d.a.insert((0, n1 - 1));
        }
        return Some(if rng.chance(1, 2) { (d, e, t) } else { (e, d, t) });
    }
    None
}

pub fn draw_map_pair(rng: &mut Rng, max: usize) -> (Dg, Dg) {
    if rng.chance(1, 8) {
        if let Some((d, e, _)) = draw_aligned_pair(rng, max) {
            return (d, e);
        }
    }
    let n1 = draw_order_tail(rng, max);
    let v1 = random_vertex_set(rng, n1, 3 * max);
    let v2 = match rng.below(7) {
        0 => v1.clone(),
        6 => {
            // the key ranges *touch*: exactly one shared vertex, the largest of one operand and the smallest
            // of the other (between "disjoint" and "overlapping"); both operands may be large
            let n2 = draw_order_tail(rng, max).max(2);
            let top = *v1.iter().max().unwrap();
            if top < usize::MAX - 3 * n2 {
                let mut v: BTreeSet<usize> = std::iter::once(top).collect();
                let mut x = top;
                while v.len() < n2 {
                    x += 1 + rng.below(2);
                    let _ = v.insert(x);
                }
                v
            } else {
                v1.clone()
            }
        }
        1 => {
            // disjoint block above (below, when the ids are at the top of the range)
            let n2 = draw_order(rng, max);
            let top = *v1.iter().max().unwrap();
            if top < usize::MAX - n2 - 1 {
                (top + 1..top + 1 + n2).collect()
            } else {
                (0..n2).filter(|x| !v1.contains(x)).chain(std::iter::once(n2 + 1)).collect()
            }
        }
        2 => {
            // interleaved: shift by one
            v1.iter().map(|&x| if x == usize::MAX { 0 } else { x + 1 }).collect()
        }
        3 => {
            // subset
            let mut v: Vec<usize> = v1.iter().copied().collect();
            rng.shuffle(&mut v);
            v.truncate(rng.range(1, v1.len()));
            v.into_iter().collect()
        }
        _ => {
            let n2 = draw_order_tail(rng, max);
            random_vertex_set(rng, n2, 3 * max)
        }
    };
    let (mut p1, mut p2) = (draw_density(rng).min(700), draw_density(rng).min(700));
    if v1.len() + v2.len() > 130 {
        p1 = p1.min(40);
        p2 = p2.min(40);
    }
    if v1.len() + v2.len() > 500 {
        p1 = p1.min(3);
        p2 = p2.min(3);
    }
    let mut d = random_dg_on(rng, &v1, p1);
    let mut e = random_dg_on(rng, &v2, p2);
    if v1.iter().max() == v2.iter().min() && v1.len() >= 2 && v2.len() >= 2 {
        // touching ranges: the shared vertex gets out-arcs in both operands, so that losing either row shows
        let top = *v1.iter().max().unwrap();
        let _ = d.a.insert((top, *v1.iter().next().unwrap()));
        let _ = e.a.insert((top, *v2.iter().next_back().unwrap()));
        if rng.chance(1, 2) {
            return (e, d);
        }
    }
    (d, e)
}

/// A contiguous digraph with order drawn around a thread count and mixed density.
pub fn draw_dg(rng: &mut Rng, max: usize) -> Dg {
    let n = draw_order_tail(rng, max);
    if n > 300 && rng.chance(1, 2) {
        // giant *and* local / nearly empty: long runs of identical rows, blocks touched once
        return match rng.below(4) {
            0 => Dg::cycle(n),
            1 => Dg::star(n),
            2 => Dg::path(n),
            _ => {
                let mut d = Dg::empty(n);
                for _ in 0..rng.range(1, 8) {
                    let (u, w) = (rng.below(n), rng.below(n));
                    if u != w {
                        let _ = d.a.insert((u, w));
                    }
                }
                d
            }
        };
    }
    // large digraphs are kept sparse or very dense so that the quadratic operations stay cheap
    let p = if n > 400 { *rng.pick(&[1, 2, 5]) } else if n > 130 { *rng.pick(&[5, 20, 60]) } else { draw_density(rng) };
    random_dg(rng, n, p)
}

pub fn draw_top(rng: &mut Rng, tier: Tier, kind: usize) -> TOp {
    let max = match tier {
        Tier::Quick => 40,
        Tier::Thorough => 130,
    };
    // large orders are quadratic in cost: keep them rare
    let max = if rng.chance(1, 6) { max } else { max.min(36) };
    match kind {
        0 => {
            // the complement of a sparse giant is dense: cap the order
            let mut d = draw_dg(rng, max);
            if d.order() > 700 {
                d = draw_dg(rng, max.min(36));
            }
            TOp::ListComplement { d }
        }
        1 => TOp::ListComplete { order: draw_order_tail(rng, max).min(400) },
        2 => TOp::ListDegreeSequence { d: draw_dg(rng, max) },
        3 if rng.chance(1, 120) => {
            // large and dense: one flag access per vertex pair, 3*10^4..10^6 scheduling points
            let order = *rng.pick(&[256, 257, 264, 288, 320, 384, 513, 769, 1025, 1025, 1030, 1100]);
            TOp::ListIsSemicompleteDense { order, seed: rng.next_u64() }
        }
        3 => {
            let n = draw_order_tail(rng, max).min(260);
            let d = match rng.below(6) {
                0 => {
                    let p = draw_density(rng).max(500);
                    random_dg(rng, n, p)
                }
                1 => near_semicomplete(rng, n, false),
                _ => near_semicomplete(rng, n, true),
            };
            TOp::ListIsSemicomplete { d }
        }
        4 => {
            let n1 = draw_order_tail(rng, max);
            let n2 = match rng.below(4) {
                0 => n1,
                1 => rng.range(1, n1),
                _ => draw_order_tail(rng, max),
            };
            let (p1, p2) = if n1.max(n2) > 400 {
                (2, 3)
            } else if n1.max(n2) > 130 {
                (20, 40)
            } else {
                (draw_density(rng), draw_density(rng))
            };
            TOp::ListUnion { d: random_dg(rng, n1, p1), e: random_dg(rng, n2, p2) }
        }
        5 => {
            let (d, e) = draw_map_pair(rng, max.min(64));
            TOp::MapUnion { d, e }
        }
        6 => {
            let p = draw_p(rng);
            let order = draw_order_tail(rng, max).min(600);
            TOp::MapErdosRenyi { order, p_bits: p.to_bits(), p: format!("{p:?}"), seed: draw_seed(rng) }
        }
        _ => {
            let order = draw_order_tail(rng, max).min(600);
            TOp::MapRandomTournament { order, seed: draw_seed(rng) }
        }
    }
}

pub fn draw_seed(rng: &mut Rng) -> u64 {
    match rng.below(9) {
        8 => {
            // boundary of the seed space: the first draw of worker `tid` is exactly 0.0, or the largest
            // value next_f64() can take (1 - 2^-52), or exactly 0.5, or the smallest positive value
            let tid = rng.below(4) as u64;
            if rng.chance(1, 3) {
                // ... or the whole first output word is a boundary value of the integer reductions
                // (draw % u, draw & 1): 0, 1, 2, 3, 2^32, 2^63, MAX - 1, MAX
                let out = *rng.pick(&[0, 1, 1, 2, 3, 1 << 32, 1 << 63, u64::MAX - 1, u64::MAX]);
                return vmodel::gen::seed_with_first_output(out).wrapping_sub(tid);
            }
            let low52 = *rng.pick(&[0, 0, (1u64 << 52) - 1, (1u64 << 52) - 1, 1 << 51, 1]);
            vmodel::gen::seed_with_first_draw(low52, rng.next_u64()).wrapping_sub(tid)
        }
        0 => 0,
        1 => 1,
        2 => u64::MAX,
        3 => u64::MAX - rng.below(64) as u64,
        _ => rng.next_u64(),
    }
}

/// Execute one threaded operation under every configuration of the scenario
/// and judge it against the model. Shared with the C11/C12/C14/C15 lanes.
pub fn run_top(op: &TOp, sc_confs: &[crate::exec::Conf], st: &mut Stats, input_class: &str) -> Vec<Violation> {
    let mut vs = Vec::new();
    let expected = op.expected();
    let name = op.name();
    let rows = op.rows();
    let body_digest = digest(serde_json::to_string(op).unwrap().as_bytes());
    let calls = if op.is_random() { 2 } else { 1 };
    // first output seen per CPU count (seeded generators may differ between counts, never within one)
    let mut per_cpu: BTreeMap<Option<usize>, (usize, Out)> = BTreeMap::new();
    st.bump(&format!("op/{name}"));
    for (ci, conf) in sc_confs.iter().enumerate() {
        let rep = exec_top(op, conf, calls);
        st.exec(conf, &rep.log);
        for k in relation_class(rows, conf.cpu) {
            st.bump(k);
        }
        vs.extend(liveness_violations(name, input_class, ci, &rep.failure, &rep.log, st));
        let workers = rep.log.max_task as usize;
        if workers >= 2 && rows > workers {
            st.case(&[body_digest, digest(serde_json::to_string(conf).unwrap().as_bytes())]);
        }
        if workers >= 2 {
            st.bump("probe/two_or_more_workers");
        }
        if workers >= 2 && rows > workers {
            st.bump("probe/rows_exceed_workers");
        }
        let Some(results) = rep.value else { continue };
        let r0 = &results[0];
        for which in &r0.operand_changed {
            vs.push(
                Violation::new("operand_changed", name, input_class, format!("operand `{which}` differs after the call"))
                    .at(ci, &rep.log),
            );
        }
        let concurrent = rep.log.callers >= 2;
        for (k, rk) in results.iter().enumerate().skip(1) {
            if !concurrent {
                break;
            }
            for which in &rk.operand_changed {
                vs.push(
                    Violation::new("operand_changed", name, input_class, format!("operand `{which}` differs after the call (concurrent caller #{k})"))
                        .at(ci, &rep.log),
                );
            }
        }
        match &expected {
            Some(exp) => {
                for (k, rk) in results.iter().enumerate() {
                    if k > 0 && !concurrent {
                        break;
                    }
                    if let Err(why) = compare(&rk.out, exp) {
                        let who = if concurrent { format!(" (caller #{k} of {} concurrent callers)", results.len()) } else { String::new() };
                        vs.push(
                            Violation::new("wrong_result", name, input_class, format!("cpu={:?}{who}: {why}", conf.cpu))
                                .at(ci, &rep.log),
                        );
                        break;
                    }
                }
            }
            None => {
                if let Err(why) = check_random_valid(op, &r0.out) {
                    vs.push(
                        Violation::new("invalid_output", name, input_class, format!("cpu={:?}: {why}", conf.cpu))
                            .at(ci, &rep.log),
                    );
                }
                for rk in results.iter().skip(1) {
                    if !concurrent {
                        break;
                    }
                    if let Err(why) = check_random_valid(op, &rk.out) {
                        vs.push(
                            Violation::new("invalid_output", name, input_class, format!("cpu={:?} (a concurrent caller): {why}", conf.cpu))
                                .at(ci, &rep.log),
                        );
                        break;
                    }
                }
                if results.iter().skip(1).any(|rk| rk.out != r0.out) {
                    vs.push(
                        Violation::new(
                            "not_repeatable",
                            name,
                            input_class,
                            format!("cpu={:?}: two calls with equal arguments in one execution ({}) differ", conf.cpu, if concurrent { "concurrent callers" } else { "one after the other" }),
                        )
                        .at(ci, &rep.log),
                    );
                }
                match per_cpu.get(&conf.cpu) {
                    None => {
                        let _ = per_cpu.insert(conf.cpu, (ci, r0.out.clone()));
                    }
                    Some((cj, first)) => {
                        st.bump("probe/same_cpu_other_schedule_compared");
                        if *first != r0.out {
                            vs.push(
                                Violation::new(
                                    "schedule_dependent",
                                    name,
                                    input_class,
                                    format!("cpu={:?}: output differs from configuration #{cj} with the same CPU count", conf.cpu),
                                )
                                .at(ci, &rep.log),
                            );
                        }
                    }
                }
            }
        }
    }
    vs
}

impl Lane for C17 {
    const ID: &'static str = "C17";
    type Body = Body;

    fn draw(rng: &mut Rng, tier: Tier, _run_index: u64) -> Scenario<Body> {
        let kind = rng.below(8);
        let op = draw_top(rng, tier, kind);
        let mut confs = draw_confs(rng, tier, op.rows());
        if matches!(op, TOp::ListIsSemicompleteDense { .. }) {
            // 2 CPUs, the machine's 16, and one drawn configuration
            let drawn = confs[rng.below(confs.len())].clone();
            let mut two = drawn.clone();
            two.cpu = Some(2);
            two.sched.seed ^= 1;
            let mut sixteen = drawn.clone();
            sixteen.cpu = Some(16);
            sixteen.sched.seed ^= 2;
            confs = vec![two, sixteen, drawn];
        } else if op.rows() > 400 {
            confs = confs.into_iter().step_by(5).collect();
        } else if op.rows() > 100 {
            // large inputs are there for size thresholds, not for schedule variety: every third configuration
            confs = confs.into_iter().step_by(3).collect();
        }
        Scenario { body: Body { op }, confs }
    }

    fn run(sc: &Scenario<Body>, st: &mut Stats) -> Vec<Violation> {
        run_top(&sc.body.op, &sc.confs, st, "")
    }

    fn shrink(body: &Body) -> Vec<Body> {
        shrink_top(&body.op).into_iter().map(|op| Body { op }).collect()
    }
}
