//! Schedulers. Every scheduling decision of an execution is made here, from
//! the simulator's own PRNG, through shuttle's public `Scheduler` trait.
//! All kinds are wrapped by the same recorder: the list of chosen task ids
//! *is* the schedule written into replay files, and `Trace` follows such a
//! list exactly.

use serde::{Deserialize, Serialize};
use shuttle::scheduler::{Schedule, Scheduler, Task, TaskId};
use std::cell::Cell;
use std::sync::{Arc, Mutex};
use vmodel::rng::Rng;

thread_local! {
    /// Set by the harness closure when the operation under test has returned
    /// on the main task; read by the scheduler to detect workers that outlive
    /// the call.
    pub static OP_RETURNED: Cell<bool> = const { Cell::new(false) };
}

#[derive(Clone, Debug, PartialEq, Eq, Serialize, Deserialize)]
#[serde(tag = "kind")]
pub enum SchedKind {
    /// uniform among runnable tasks at every decision
    Random,
    /// keep the running task; switch to a uniformly chosen other task with probability switch/1000
    Sticky { switch: u32 },
    /// PCT: random priorities, `depth - 1` priority change points spread over `est_steps`
    Pct { depth: u32, est_steps: u32 },
    /// lowest runnable id after the current one, cyclically
    RoundRobin,
    /// always the lowest runnable id (run each task to completion in spawn order)
    OldestFirst,
    /// always the highest runnable id
    NewestFirst,
    /// worker `victim` (task id victim+1) runs only when nothing else can: a stalled node. The stall begins
    /// after the victim has been scheduled `stall_after(seed)` times (0..=4, a pure function of the seed): a
    /// worker that claimed work and is then descheduled for as long as anything else can run
    StallOne { victim: u32 },
    /// follow `trace` exactly
    Trace,
    /// follow `trace` while it lasts (and names a runnable task), then always the lowest runnable id;
    /// used by the minimiser to find the shortest schedule prefix that still matters
    TracePrefix,
}

#[derive(Clone, Debug, PartialEq, Eq, Serialize, Deserialize)]
pub struct SchedSpec {
    #[serde(flatten)]
    pub kind: SchedKind,
    pub seed: u64,
    /// extra scheduling points of the seam are on for this execution: a lock holder may be descheduled
    /// right after acquiring (inside its critical section), and every reference-count operation of a seam
    /// `Arc` is a point at which another task may run
    #[serde(default, skip_serializing_if = "is_false")]
    pub hold: bool,
    /// 2 or 3: the operation under test is called by that many concurrent *caller* tasks on the same (shared,
    /// borrowed) operands inside one execution, instead of by one caller; 0 / 1: a single caller
    #[serde(default, skip_serializing_if = "is_zero")]
    pub callers: u8,
}

#[allow(clippy::trivially_copy_pass_by_ref)]
fn is_zero(b: &u8) -> bool {
    *b == 0
}

/// How many concurrent callers a schedule drawn with this seed uses: a pure function of the seed (one
/// schedule in six has 2 or 3 callers).
pub fn callers_for_seed(seed: u64) -> u8 {
    let m = vmodel::rng::mix(&[seed, 0xCA11_E125]);
    if m % 6 == 0 {
        2 + ((m >> 8) % 2) as u8
    } else {
        0
    }
}

#[allow(clippy::trivially_copy_pass_by_ref)]
fn is_false(b: &bool) -> bool {
    !*b
}

/// Whether a schedule drawn with this seed switches the seam's extra scheduling points on: a pure
/// function of the seed (three schedules in eight), so that drawing it consumes nothing from the run's
/// PRNG.
pub fn hold_for_seed(seed: u64) -> bool {
    // VERIF_NO_EXTRA_POINTS=1 switches the extra points off for a whole batch; used by the self-test only,
    // to show which changes are caught *because of* these points
    static OFF: std::sync::OnceLock<bool> = std::sync::OnceLock::new();
    if *OFF.get_or_init(|| std::env::var("VERIF_NO_EXTRA_POINTS").is_ok_and(|v| v == "1")) {
        return false;
    }
    vmodel::rng::mix(&[seed, 0x401D_0B5E]) % 8 < 3
}

impl SchedSpec {
    pub fn name(&self) -> &'static str {
        match self.kind {
            SchedKind::Random => "random",
            SchedKind::Sticky { .. } => "sticky",
            SchedKind::Pct { .. } => "pct",
            SchedKind::RoundRobin => "round_robin",
            SchedKind::OldestFirst => "oldest_first",
            SchedKind::NewestFirst => "newest_first",
            SchedKind::StallOne { .. } => "stall_one",
            SchedKind::Trace => "trace",
            SchedKind::TracePrefix => "trace_prefix",
        }
    }
}

#[derive(Clone, Debug, Default)]
pub struct ExecLog {
    /// chosen task id per decision
    pub decisions: Vec<u32>,
    /// decisions with more than one runnable task
    pub choice_points: u64,
    /// decisions where the chosen task differs from the previous one
    pub switches: u64,
    /// decisions where a task other than the current one was chosen although the current one was runnable
    pub preemptions: u64,
    /// highest task id seen (= number of spawned workers, main is 0)
    pub max_task: u32,
    /// max number of simultaneously runnable tasks
    pub max_runnable: u32,
    /// a non-main task was runnable after the operation had returned on the main task
    pub worker_after_return: bool,
    /// `Trace` scheduler: the recorded task was not runnable at that decision
    pub trace_diverged: bool,
    /// random u64s handed to tasks through shuttle::rand (should be 0: graaf does not use it)
    pub u64s: u64,
    /// stall_one: decisions at which the victim was runnable but held back
    pub stalled_decisions: u64,
    /// extra scheduling points of the seam passed during the execution (inside critical sections, at
    /// reference-count operations)
    pub extra_points: u64,
    /// concurrent caller tasks that called the operation under test in this execution (0: one caller)
    pub callers: u8,
}

pub struct SimScheduler {
    spec: SchedSpec,
    trace: Option<Vec<u32>>,
    rng: Rng,
    log: Arc<Mutex<ExecLog>>,
    started: bool,
    step: usize,
    last: Option<u32>,
    /// StallOne: how often the victim is scheduled before its stall begins, and how often it has been
    stall_after: u32,
    victim_steps: u32,
    // PCT state
    prio: Vec<u64>,
    change_points: Vec<usize>,
    next_low: u64,
}

impl SimScheduler {
    pub fn new(spec: SchedSpec, trace: Option<Vec<u32>>, log: Arc<Mutex<ExecLog>>) -> Self {
        let mut rng = Rng::new(spec.seed);
        let spec_seed = spec.seed;
        let mut change_points = Vec::new();
        if let SchedKind::Pct { depth, est_steps } = spec.kind {
            for _ in 1..depth.max(1) {
                change_points.push(rng.below(est_steps.max(1) as usize));
            }
            change_points.sort_unstable();
        }
        Self {
            spec,
            trace,
            rng,
            log,
            started: false,
            step: 0,
            last: None,
            stall_after: (vmodel::rng::mix(&[spec_seed, 0x57A1_1AF7]) % 5) as u32,
            victim_steps: 0,
            prio: Vec::new(),
            change_points,
            next_low: 0,
        }
    }

    fn choose(&mut self, ids: &[u32], current: Option<u32>, log: &mut ExecLog) -> u32 {
        let n = ids.len();
        match self.spec.kind {
            SchedKind::Random => ids[self.rng.below(n)],
            SchedKind::Sticky { switch } => match current {
                Some(c) if ids.contains(&c) && n > 1 => {
                    if self.rng.below(1000) < switch as usize {
                        let others: Vec<u32> = ids.iter().copied().filter(|&i| i != c).collect();
                        others[self.rng.below(others.len())]
                    } else {
                        c
                    }
                }
                _ => ids[self.rng.below(n)],
            },
            SchedKind::Pct { depth, .. } => {
                for &i in ids {
                    while self.prio.len() <= i as usize {
                        // new tasks get a random priority above every lowered one
                        let p = u64::from(depth) + 1 + (self.rng.next_u64() >> 8);
                        self.prio.push(p);
                    }
                }
                let mut best = ids[0];
                for &i in ids {
                    if self.prio[i as usize] > self.prio[best as usize] {
                        best = i;
                    }
                }
                while self.change_points.first().is_some_and(|&cp| cp <= self.step) {
                    let _ = self.change_points.remove(0);
                    // lower the task that would run now below every other
                    self.prio[best as usize] = self.next_low;
                    self.next_low += 1;
                    best = ids[0];
                    for &i in ids {
                        if self.prio[i as usize] > self.prio[best as usize] {
                            best = i;
                        }
                    }
                }
                best
            }
            SchedKind::RoundRobin => match current {
                Some(c) => *ids.iter().find(|&&i| i > c).unwrap_or(&ids[0]),
                None => ids[0],
            },
            SchedKind::OldestFirst => *ids.iter().min().unwrap(),
            SchedKind::NewestFirst => *ids.iter().max().unwrap(),
            SchedKind::StallOne { victim } => {
                let vid = victim + 1;
                let others: Vec<u32> = ids.iter().copied().filter(|&i| i != vid).collect();
                if others.is_empty() {
                    vid
                } else if self.victim_steps < self.stall_after && ids.contains(&vid) {
                    // before the stall: the victim is preferred, so that it gets to claim work first
                    self.victim_steps += 1;
                    vid
                } else {
                    if others.len() < n {
                        log.stalled_decisions += 1;
                    }
                    others[self.rng.below(others.len())]
                }
            }
            SchedKind::TracePrefix => {
                let want = self.trace.as_ref().and_then(|t| t.get(self.step).copied());
                match want {
                    Some(w) if ids.contains(&w) => w,
                    _ => *ids.iter().min().unwrap(),
                }
            }
            SchedKind::Trace => {
                let want = self.trace.as_ref().and_then(|t| t.get(self.step).copied());
                match want {
                    Some(w) if ids.contains(&w) => w,
                    _ => {
                        log.trace_diverged = true;
                        *ids.iter().min().unwrap()
                    }
                }
            }
        }
    }
}

impl Scheduler for SimScheduler {
    fn new_execution(&mut self) -> Option<Schedule> {
        if self.started {
            None
        } else {
            self.started = true;
            Some(Schedule::new(self.spec.seed))
        }
    }

    fn next_task(
        &mut self,
        runnable: &[&Task],
        current: Option<TaskId>,
        _is_yielding: bool,
    ) -> Option<TaskId> {
        let ids: Vec<u32> = runnable.iter().map(|t| usize::from(t.id()) as u32).collect();
        let current = current.map(|c| usize::from(c) as u32);
        let log_arc = Arc::clone(&self.log);
        let mut log = log_arc.lock().unwrap();
        let chosen = self.choose(&ids, current, &mut log);
        if ids.len() > 1 {
            log.choice_points += 1;
        }
        log.max_runnable = log.max_runnable.max(ids.len() as u32);
        for &i in &ids {
            log.max_task = log.max_task.max(i);
        }
        if self.last.is_some_and(|l| l != chosen) {
            log.switches += 1;
            if current.is_some_and(|c| c != chosen && ids.contains(&c)) {
                log.preemptions += 1;
            }
        }
        if OP_RETURNED.with(Cell::get) && ids.iter().any(|&i| i != 0) {
            log.worker_after_return = true;
        }
        log.decisions.push(chosen);
        self.last = Some(chosen);
        self.step += 1;
        Some(TaskId::from(chosen as usize))
    }

    fn next_u64(&mut self) -> u64 {
        self.log.lock().unwrap().u64s += 1;
        self.rng.next_u64()
    }
}
