//! Allocation ledger: a counting global allocator with per-OS-thread
//! counters. All simulated threads of a shuttle execution are coroutines on
//! the OS thread that runs the execution, so "bytes live on this OS thread"
//! after an execution is an exact, noise-free measure of what the executed
//! operations left behind.

use std::alloc::{GlobalAlloc, Layout, System};
use std::cell::Cell;

pub struct Ledger;

thread_local! {
    static LIVE: Cell<i64> = const { Cell::new(0) };
    static ALLOCS: Cell<u64> = const { Cell::new(0) };
    static FREES: Cell<u64> = const { Cell::new(0) };
}

unsafe impl GlobalAlloc for Ledger {
    unsafe fn alloc(&self, l: Layout) -> *mut u8 {
        let p = System.alloc(l);
        if !p.is_null() {
            let _ = LIVE.try_with(|c| c.set(c.get() + l.size() as i64));
            let _ = ALLOCS.try_with(|c| c.set(c.get() + 1));
        }
        p
    }

    unsafe fn dealloc(&self, p: *mut u8, l: Layout) {
        System.dealloc(p, l);
        let _ = LIVE.try_with(|c| c.set(c.get() - l.size() as i64));
        let _ = FREES.try_with(|c| c.set(c.get() + 1));
    }

    unsafe fn alloc_zeroed(&self, l: Layout) -> *mut u8 {
        let p = System.alloc_zeroed(l);
        if !p.is_null() {
            let _ = LIVE.try_with(|c| c.set(c.get() + l.size() as i64));
            let _ = ALLOCS.try_with(|c| c.set(c.get() + 1));
        }
        p
    }

    unsafe fn realloc(&self, p: *mut u8, l: Layout, new_size: usize) -> *mut u8 {
        let q = System.realloc(p, l, new_size);
        if !q.is_null() {
            let _ = LIVE.try_with(|c| c.set(c.get() + new_size as i64 - l.size() as i64));
        }
        q
    }
}

#[derive(Clone, Copy, Debug, PartialEq, Eq)]
pub struct Snapshot {
    pub live: i64,
    pub allocs: u64,
    pub frees: u64,
}

pub fn snapshot() -> Snapshot {
    Snapshot { live: LIVE.with(Cell::get), allocs: ALLOCS.with(Cell::get), frees: FREES.with(Cell::get) }
}
