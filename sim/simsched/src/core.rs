//! Lane framework: scenario + configurations, statistics, violations, the
//! worker loop, replay and minimisation. A *lane* is the part that is specific
//! to one property (what a scenario is, how it is drawn, executed and judged).

use crate::exec::Conf;
use crate::sched::{ExecLog, SchedKind, SchedSpec};
use serde::{de::DeserializeOwned, Deserialize, Serialize};
use serde_json::{json, Value};
use std::collections::BTreeMap;
use std::io::Write;
use vmodel::rng::{digest, digest_words, mix, Rng};

#[derive(Clone, Copy, Debug, PartialEq, Eq)]
pub enum Tier {
    Quick,
    Thorough,
}

impl Tier {
    pub fn name(self) -> &'static str {
        match self {
            Tier::Quick => "quick",
            Tier::Thorough => "thorough",
        }
    }
    pub fn parse(s: &str) -> Option<Self> {
        match s {
            "quick" => Some(Tier::Quick),
            "thorough" => Some(Tier::Thorough),
            _ => None,
        }
    }
}

#[derive(Clone, Debug, Serialize, Deserialize)]
pub struct Scenario<B> {
    pub body: B,
    pub confs: Vec<Conf>,
}

#[derive(Clone, Debug, Serialize, Deserialize)]
pub struct Violation {
    pub class: String,
    /// entry point the violation is attributed to
    pub op: String,
    /// `<class> <op> <input class>`; known findings are matched on this
    pub signature: String,
    pub detail: String,
    /// index into `confs` of the configuration that exposed it, if any
    #[serde(default)]
    pub conf_index: Option<usize>,
    /// decisions recorded in that execution
    #[serde(default)]
    pub trace: Option<Vec<u32>>,
}

impl Violation {
    pub fn new(class: &str, op: &str, input_class: &str, detail: String) -> Self {
        let signature = if input_class.is_empty() {
            format!("{class} {op}")
        } else {
            format!("{class} {op} {input_class}")
        };
        Self { class: class.into(), op: op.into(), signature, detail, conf_index: None, trace: None }
    }
    pub fn at(mut self, conf_index: usize, log: &ExecLog) -> Self {
        self.conf_index = Some(conf_index);
        self.trace = Some(log.decisions.clone());
        self
    }
}

#[derive(Clone, Debug, Default, Serialize, Deserialize)]
pub struct Stats {
    pub runs: u64,
    /// scheduled executions (one `Runner::run` each)
    pub executions: u64,
    /// checks of operations that have no schedule to vary (counted separately)
    pub sequential_checks: u64,
    /// scheduling decisions = the stand-in for simulated time
    pub steps: u64,
    pub choice_points: u64,
    pub switches: u64,
    pub preemptions: u64,
    pub max_steps_one_execution: u64,
    pub max_workers_one_execution: u64,
    pub counters: BTreeMap<String, u64>,
    pub samples: Vec<Value>,
    #[serde(skip)]
    pub case_digests: Vec<u64>,
    #[serde(skip)]
    pub sched_digests: Vec<u64>,
    #[serde(skip)]
    pub run_digests: Vec<(u64, u64)>,
}

impl Stats {
    pub fn bump(&mut self, key: &str) {
        *self.counters.entry(key.to_string()).or_insert(0) += 1;
    }
    pub fn add(&mut self, key: &str, n: u64) {
        *self.counters.entry(key.to_string()).or_insert(0) += n;
    }
    /// Account one scheduled execution.
    pub fn exec(&mut self, conf: &Conf, log: &ExecLog) {
        self.executions += 1;
        self.steps += log.decisions.len() as u64;
        self.choice_points += log.choice_points;
        self.switches += log.switches;
        self.preemptions += log.preemptions;
        self.max_steps_one_execution = self.max_steps_one_execution.max(log.decisions.len() as u64);
        self.max_workers_one_execution = self.max_workers_one_execution.max(u64::from(log.max_task));
        self.bump(&format!("sched/{}", conf.sched.name()));
        match conf.cpu {
            Some(n) => self.bump(&format!("cpu/{n:02}")),
            None => {
                self.bump("cpu/err");
                self.bump("fault/ap_error");
            }
        }
        if log.preemptions > 0 {
            self.add("fault/preemption", log.preemptions);
        }
        if log.stalled_decisions > 0 {
            self.bump("fault/stalled_worker");
        }
        if conf.sched.hold {
            self.bump("sched_extra_points/on");
        }
        if log.callers >= 2 {
            self.bump("fault/concurrent_callers");
            self.bump(&format!("callers/{}", log.callers));
        }
        if log.extra_points > 0 {
            self.add("fault/preemption_point_in_critical_section_or_refcount", log.extra_points);
        }
        if log.max_task >= 2 {
            self.sched_digests.push(digest_words(log.decisions.iter().map(|&d| u64::from(d))));
        }
    }
    pub fn sample(&mut self, v: Value) {
        if self.samples.len() < 4 {
            self.samples.push(v);
        }
    }
    pub fn case(&mut self, words: &[u64]) {
        self.case_digests.push(digest_words(words.iter().copied()));
    }
}

pub trait Lane {
    const ID: &'static str;
    type Body: Serialize + DeserializeOwned + Clone + std::fmt::Debug + Send + 'static;
    fn draw(rng: &mut Rng, tier: Tier, run_index: u64) -> Scenario<Self::Body>;
    /// Execute the scenario under all of its configurations and judge it.
    fn run(sc: &Scenario<Self::Body>, st: &mut Stats) -> Vec<Violation>;
    /// Whether `run` is executed as the main task of an ambient execution (see `exec::run_ambient`).
    /// The ledger lane of C13 measures the heap around its own executions and opts out.
    const AMBIENT: bool = true;
    /// Smaller variants of the body (the framework shrinks configurations itself).
    fn shrink(body: &Self::Body) -> Vec<Self::Body>;
}

/// `L::run` inside the ambient execution.
pub fn run_lane<L: Lane>(sc: &Scenario<L::Body>, st: &mut Stats) -> Vec<Violation>
where
    L::Body: Send + 'static,
{
    if !L::AMBIENT {
        return L::run(sc, st);
    }
    let conf = crate::exec::ambient_conf(digest(serde_json::to_string(sc).unwrap_or_default().as_bytes()));
    let sc2 = sc.clone();
    let st_in = std::mem::take(st);
    let rep = crate::exec::run_ambient(&conf, move || {
        let mut st = st_in;
        let vs = L::run(&sc2, &mut st);
        (vs, st)
    });
    let mut vs = Vec::new();
    match rep.value {
        Some((v, s)) => {
            vs = v;
            *st = s;
        }
        None => {
            st.bump("note/ambient_execution_failed");
        }
    }
    if rep.log.max_task > 0 {
        // a function outside the hand-threaded eight started workers: they were scheduled here
        st.bump("probe/workers_scheduled_by_the_ambient_execution");
    }
    if let Some(f) = rep.failure {
        match f {
            // a panic that no guard caught is a harness error, exactly as without the ambient execution
            crate::exec::Failure::Panic(m) => panic!("{m}"),
            f => vs.push(Violation::new(f.class(), "ambient", &format!("{:?} CPUs", conf.cpu), format!("the ambient execution ({:?}) did not finish: {}", conf, f.message()))),
        }
    }
    vs
}

pub fn run_seed(verif_seed: u64, property: &str, tier: Tier, run_index: u64) -> u64 {
    mix(&[verif_seed, digest(property.as_bytes()), tier as u64, run_index])
}

#[derive(Serialize, Deserialize)]
pub struct ReplayFile<B> {
    pub property: String,
    pub verif_seed: u64,
    pub tier: String,
    pub run_index: u64,
    pub run_seed: u64,
    pub violation: Violation,
    pub scenario: Scenario<B>,
    #[serde(default)]
    pub minimised: bool,
    #[serde(default)]
    pub note: String,
}

pub struct WorkerArgs {
    pub tier: Tier,
    pub verif_seed: u64,
    pub shard: u64,
    pub shards: u64,
    pub runs: u64,
    pub out: String,
    pub replay_dir: String,
    pub only_run: Option<u64>,
    pub skip: Vec<u64>,
    /// execute only the runs of this shard with `from <= index <= upto` (history replay: a run that violates
    /// the property only after earlier runs of the same process)
    pub from: Option<u64>,
    pub upto: Option<u64>,
}

/// Per-run digest of everything a run did; two processes given the same
/// arguments must produce identical digest lists (determinism self-test).
fn digest_run<B: Serialize>(sc: &Scenario<B>, vs: &[Violation], st_before: (u64, u64), st: &Stats) -> u64 {
    let s = serde_json::to_string(sc).unwrap();
    let v = serde_json::to_string(vs).unwrap();
    let sd = digest_words(st.sched_digests.iter().copied());
    mix(&[
        digest(s.as_bytes()),
        digest(v.as_bytes()),
        st.executions - st_before.0,
        st.steps - st_before.1,
        sd,
    ])
}

pub fn worker<L: Lane>(a: &WorkerArgs) -> i32 {
    let mut st = Stats::default();
    let mut violations: Vec<Value> = Vec::new();
    let mut sig_counts: BTreeMap<String, u64> = BTreeMap::new();
    let started = std::time::Instant::now();
    let mut current = std::fs::File::create(format!("{}.current", a.out)).expect("create .current file");
    let mut idx = a.shard;
    while idx < a.runs {
        if let Some(only) = a.only_run {
            if idx != only {
                idx += a.shards;
                continue;
            }
        }
        if a.skip.contains(&idx) || a.from.is_some_and(|f| idx < f) {
            idx += a.shards;
            continue;
        }
        if a.upto.is_some_and(|u| idx > u) {
            break;
        }
        // the driver attributes a crash of this process to the run recorded here (rewritten in place:
        // millions of runs must not produce millions of log lines)
        {
            use std::io::{Seek, SeekFrom};
            let _ = current.seek(SeekFrom::Start(0));
            let _ = current.write_all(format!("BEGIN {idx:020}\n").as_bytes());
        }
        if std::env::var("VERIF_TEST_ABORT_AT").is_ok_and(|v| v == idx.to_string()) {
            // self-test of the crash-attribution path only
            std::process::abort();
        }
        let seed = run_seed(a.verif_seed, L::ID, a.tier, idx);
        let mut rng = Rng::new(seed);
        let sc = L::draw(&mut rng, a.tier, idx);
        let before = (st.executions, st.steps);
        let sd_len = st.sched_digests.len();
        let vs = run_lane::<L>(&sc, &mut st);
        st.runs += 1;
        // per-run digest over this run's schedule digests only
        let mut tmp = Stats::default();
        tmp.sched_digests = st.sched_digests[sd_len..].to_vec();
        tmp.executions = st.executions;
        tmp.steps = st.steps;
        st.run_digests.push((idx, digest_run(&sc, &vs, before, &tmp)));
        if st.samples.len() < 3 {
            // written-out cases for the evidence file: prefer small ones
            let text = serde_json::to_string(&sc).unwrap();
            if text.len() < 1500 {
                st.samples.push(serde_json::to_value(&sc).unwrap());
            }
        }
        for (k, v) in vs.into_iter().enumerate() {
            // at most a few replay files per signature and worker; the rest is only counted
            let seen = sig_counts.entry(v.signature.clone()).or_insert(0u64);
            *seen += 1;
            if *seen > 3 {
                violations.push(json!({"signature": v.signature, "class": v.class, "op": v.op,
                                       "detail": v.detail, "replay": Value::Null, "run_index": idx}));
                continue;
            }
            let mut sc2 = sc.clone();
            if let (Some(ci), Some(tr)) = (v.conf_index, v.trace.clone()) {
                if ci < sc2.confs.len() {
                    sc2.confs[ci].trace = Some(tr);
                }
            }
            let path = format!("{}/{}-{}-{}-{}.json", a.replay_dir, L::ID, a.verif_seed, idx, k);
            let rf = ReplayFile {
                property: L::ID.to_string(),
                verif_seed: a.verif_seed,
                tier: a.tier.name().to_string(),
                run_index: idx,
                run_seed: seed,
                violation: v.clone(),
                scenario: sc2,
                minimised: false,
                note: String::new(),
            };
            std::fs::write(&path, serde_json::to_string_pretty(&rf).unwrap()).expect("write replay");
            violations.push(json!({"signature": v.signature, "class": v.class, "op": v.op,
                                   "detail": v.detail, "replay": path, "run_index": idx}));
        }
        idx += a.shards;
    }
    let wall = started.elapsed().as_secs_f64();
    let out = json!({
        "property": L::ID, "tier": a.tier.name(), "verif_seed": a.verif_seed,
        "shard": a.shard, "shards": a.shards, "wall_s": wall,
        "stats": st, "violations": violations,
    });
    std::fs::write(&a.out, serde_json::to_string(&out).unwrap()).expect("write worker output");
    write_words(&format!("{}.cases", a.out), &st.case_digests);
    write_words(&format!("{}.scheds", a.out), &st.sched_digests);
    let flat: Vec<u64> = st.run_digests.iter().flat_map(|&(i, d)| [i, d]).collect();
    write_words(&format!("{}.runs", a.out), &flat);
    println!("DONE");
    0
}

/// Write the scenario of one run as a replay file without executing it (used
/// when executing it kills the process).
pub fn dump<L: Lane>(tier: Tier, verif_seed: u64, run_index: u64, out: &str) -> i32 {
    let seed = run_seed(verif_seed, L::ID, tier, run_index);
    let mut rng = Rng::new(seed);
    let sc = L::draw(&mut rng, tier, run_index);
    let rf = ReplayFile {
        property: L::ID.to_string(),
        verif_seed,
        tier: tier.name().to_string(),
        run_index,
        run_seed: seed,
        violation: Violation::new("process_killed", "?", "", "executing this scenario killed the worker process".into()),
        scenario: sc,
        minimised: false,
        note: "dumped without execution".into(),
    };
    std::fs::write(out, serde_json::to_string_pretty(&rf).unwrap()).expect("write dump");
    0
}

pub fn write_words(path: &str, words: &[u64]) {
    let mut bytes = Vec::with_capacity(words.len() * 8);
    for w in words {
        bytes.extend_from_slice(&w.to_le_bytes());
    }
    std::fs::write(path, bytes).expect("write digest file");
}

pub fn read_words(path: &str) -> Vec<u64> {
    let bytes = std::fs::read(path).unwrap_or_default();
    bytes.chunks_exact(8).map(|c| u64::from_le_bytes(c.try_into().unwrap())).collect()
}

/// Re-execute the scenario of a replay file. Prints one line per violation and
/// returns them.
pub fn replay<L: Lane>(path: &str) -> Result<(ReplayFile<L::Body>, Vec<Violation>), String> {
    let text = std::fs::read_to_string(path).map_err(|e| format!("read {path}: {e}"))?;
    let rf: ReplayFile<L::Body> = serde_json::from_str(&text).map_err(|e| format!("parse {path}: {e}"))?;
    let mut st = Stats::default();
    let vs = run_lane::<L>(&rf.scenario, &mut st);
    Ok((rf, vs))
}

/// Execute a scenario in a forked child so that a scenario which kills the
/// process (abort on an unsafe-precondition check, SIGSEGV from an
/// out-of-bounds access) is an observable outcome instead of the end of the
/// minimiser. The worker process is single-threaded, so fork is safe here.
pub fn run_isolated<L: Lane>(sc: &Scenario<L::Body>) -> Vec<Violation> {
    use std::io::Read;
    use std::os::fd::FromRawFd;
    let mut fds = [0 as libc::c_int; 2];
    if unsafe { libc::pipe(fds.as_mut_ptr()) } != 0 {
        let mut st = Stats::default();
        return run_lane::<L>(sc, &mut st);
    }
    let pid = unsafe { libc::fork() };
    if pid == 0 {
        unsafe {
            let _ = libc::close(fds[0]);
        }
        let mut st = Stats::default();
        let vs = run_lane::<L>(sc, &mut st);
        let text = serde_json::to_vec(&vs).unwrap_or_default();
        let mut off = 0;
        while off < text.len() {
            let n = unsafe { libc::write(fds[1], text[off..].as_ptr().cast(), text.len() - off) };
            if n <= 0 {
                break;
            }
            off += n as usize;
        }
        unsafe { libc::_exit(0) };
    }
    unsafe {
        let _ = libc::close(fds[1]);
    }
    let mut buf = Vec::new();
    let mut f = unsafe { std::fs::File::from_raw_fd(fds[0]) };
    let _ = f.read_to_end(&mut buf);
    let mut status: libc::c_int = 0;
    let _ = unsafe { libc::waitpid(pid, &mut status, 0) };
    if libc::WIFSIGNALED(status) {
        return vec![Violation::new(
            "process_killed",
            "?",
            "",
            format!("executing this scenario killed the process with signal {}", libc::WTERMSIG(status)),
        )];
    }
    serde_json::from_slice(&buf).unwrap_or_default()
}

fn same_violation(vs: &[Violation], want: &Violation) -> Option<Violation> {
    vs.iter().find(|v| v.class == want.class && v.op == want.op).cloned()
}

/// Greedy delta debugging: shrink the body (lane-specific candidates) and the
/// configurations (drop, simplify the scheduler, lower the CPU count) while the
/// same violation class on the same operation persists. Every candidate is a
/// complete scenario including its schedule, so shrinking never depends on a
/// run that "happens not to fail".
pub fn minimise<L: Lane>(path: &str, out_path: &str, budget: usize) -> Result<ReplayFile<L::Body>, String> {
    // wall-clock limit as well: one re-execution of a giant scenario can take seconds
    let max_secs: u64 = std::env::var("VERIF_MINIMISE_SECS").ok().and_then(|s| s.parse().ok()).unwrap_or(60);
    let deadline = std::time::Instant::now() + std::time::Duration::from_secs(max_secs);
    let text = std::fs::read_to_string(path).map_err(|e| format!("read {path}: {e}"))?;
    let mut rf: ReplayFile<L::Body> = serde_json::from_str(&text).map_err(|e| format!("parse: {e}"))?;
    let want = rf.violation.clone();
    let mut tries = 0usize;
    // the recorded trace is authoritative only for the original scenario; candidates re-derive it
    let mut cur = rf.scenario.clone();
    for c in &mut cur.confs {
        if !matches!(c.sched.kind, SchedKind::Trace) {
            c.trace = None;
        }
    }
    let mut cur_v = match same_violation(&run_isolated::<L>(&cur), &want) {
        Some(v) => v,
        None => return Err("violation does not reproduce before minimisation".into()),
    };
    let mut progress = true;
    while progress && tries < budget && std::time::Instant::now() < deadline {
        progress = false;
        // 1. configurations
        let mut cands: Vec<Scenario<L::Body>> = Vec::new();
        if cur.confs.len() > 1 {
            if let Some(ci) = cur_v.conf_index {
                let mut c = cur.clone();
                c.confs = vec![cur.confs[ci].clone()];
                cands.push(c);
                // nondeterminism-type violations need a pair: keep the violating one and one other
                for j in 0..cur.confs.len() {
                    if j != ci {
                        let mut c = cur.clone();
                        c.confs = vec![cur.confs[j.min(ci)].clone(), cur.confs[j.max(ci)].clone()];
                        if c.confs.len() < cur.confs.len() {
                            cands.push(c);
                        }
                    }
                }
            }
            for j in 0..cur.confs.len() {
                let mut c = cur.clone();
                let _ = c.confs.remove(j);
                cands.push(c);
            }
        }
        for j in 0..cur.confs.len() {
            let conf = &cur.confs[j];
            if !matches!(conf.sched.kind, SchedKind::OldestFirst) {
                let mut c = cur.clone();
                c.confs[j].sched = SchedSpec { kind: SchedKind::OldestFirst, seed: 0, hold: c.confs[j].sched.hold, callers: c.confs[j].sched.callers };
                c.confs[j].trace = None;
                cands.push(c);
                if !matches!(conf.sched.kind, SchedKind::RoundRobin) {
                    let mut c = cur.clone();
                    c.confs[j].sched = SchedSpec { kind: SchedKind::RoundRobin, seed: 0, hold: c.confs[j].sched.hold, callers: c.confs[j].sched.callers };
                    c.confs[j].trace = None;
                    cands.push(c);
                }
            }
            if conf.sched.hold {
                let mut c = cur.clone();
                c.confs[j].sched.hold = false;
                c.confs[j].trace = None;
                cands.push(c);
            }
            if conf.sched.callers >= 2 {
                let mut c = cur.clone();
                c.confs[j].sched.callers = if conf.sched.callers > 2 { 2 } else { 0 };
                c.confs[j].trace = None;
                cands.push(c);
            }
            if let Some(n) = conf.cpu {
                for m in [1, 2, n / 2, n.saturating_sub(1)] {
                    if m >= 1 && m < n {
                        let mut c = cur.clone();
                        c.confs[j].cpu = Some(m);
                        c.confs[j].trace = None;
                        cands.push(c);
                    }
                }
            } else {
                let mut c = cur.clone();
                c.confs[j].cpu = Some(1);
                c.confs[j].trace = None;
                cands.push(c);
            }
        }
        // 2. body
        for b in L::shrink(&cur.body) {
            let mut c = cur.clone();
            c.body = b;
            for cf in &mut c.confs {
                cf.trace = None;
                if matches!(cf.sched.kind, SchedKind::Trace) {
                    cf.sched = SchedSpec { kind: SchedKind::OldestFirst, seed: 0, hold: cf.sched.hold, callers: cf.sched.callers };
                }
            }
            cands.push(c);
        }
        for c in cands {
            if tries >= budget || std::time::Instant::now() >= deadline {
                break;
            }
            tries += 1;
            if c.confs.is_empty() {
                continue;
            }
            let vs = run_isolated::<L>(&c);
            if let Some(v) = same_violation(&vs, &want) {
                cur = c;
                cur_v = v;
                progress = true;
                break;
            }
        }
    }
    // pin the schedule: the final file carries the explicit decision list and follows it
    if let (Some(ci), Some(tr)) = (cur_v.conf_index, cur_v.trace.clone()) {
        if ci < cur.confs.len() {
            let mut pinned = cur.clone();
            pinned.confs[ci].sched = SchedSpec { kind: SchedKind::Trace, seed: cur.confs[ci].sched.seed, hold: cur.confs[ci].sched.hold, callers: cur.confs[ci].sched.callers };
            pinned.confs[ci].trace = Some(tr);
            let vs = run_isolated::<L>(&pinned);
            if let Some(v) = same_violation(&vs, &want) {
                cur = pinned;
                cur_v = v;
            } else if ci < cur.confs.len() {
                cur.confs[ci].trace = cur_v.trace.clone();
            }
        }
    }
    // shorten the schedule: the shortest prefix of the decision list after which "always the lowest
    // runnable task" still produces the violation; the file then pins the decisions of that execution
    let mut prefix_note = String::new();
    if let (Some(ci), Some(tr)) = (cur_v.conf_index, cur_v.trace.clone()) {
        if ci < cur.confs.len() && tr.len() > 1 {
            let try_prefix = |k: usize, tries: &mut usize| -> Option<(Scenario<L::Body>, Violation)> {
                *tries += 1;
                let mut c = cur.clone();
                c.confs[ci].sched = SchedSpec { kind: SchedKind::TracePrefix, seed: cur.confs[ci].sched.seed, hold: cur.confs[ci].sched.hold, callers: cur.confs[ci].sched.callers };
                c.confs[ci].trace = Some(tr[..k].to_vec());
                let v = same_violation(&run_isolated::<L>(&c), &want)?;
                // pin what was actually executed
                let mut pinned = c.clone();
                pinned.confs[ci].sched = SchedSpec { kind: SchedKind::Trace, seed: cur.confs[ci].sched.seed, hold: cur.confs[ci].sched.hold, callers: cur.confs[ci].sched.callers };
                pinned.confs[ci].trace = v.trace.clone();
                let v2 = same_violation(&run_isolated::<L>(&pinned), &want)?;
                Some((pinned, v2))
            };
            // doubling search for a prefix that works, then a linear scan below it
            let mut k = 0usize;
            let mut found: Option<(usize, Scenario<L::Body>, Violation)> = None;
            let deadline2 = deadline + std::time::Duration::from_secs(max_secs / 2);
            while k < tr.len() && tries < budget + 64 && std::time::Instant::now() < deadline2 {
                if let Some((c, v)) = try_prefix(k, &mut tries) {
                    found = Some((k, c, v));
                    break;
                }
                k = if k == 0 { 1 } else { k * 2 };
            }
            if let Some((k_hi, c, v)) = found {
                let (mut best_k, mut best) = (k_hi, (c, v));
                let lo = k_hi / 2 + 1;
                for kk in lo..k_hi {
                    if tries >= budget + 128 || std::time::Instant::now() >= deadline2 {
                        break;
                    }
                    if let Some((c, v)) = try_prefix(kk, &mut tries) {
                        best_k = kk;
                        best = (c, v);
                        break;
                    }
                }
                prefix_note = format!("; the first {best_k} of {} recorded decisions matter, after them the lowest runnable task always runs", tr.len());
                cur = best.0;
                cur_v = best.1;
            }
        }
    }
    rf.scenario = cur;
    rf.violation = cur_v;
    rf.minimised = true;
    rf.note = format!("minimised with {tries} re-executions{prefix_note}");
    std::fs::write(out_path, serde_json::to_string_pretty(&rf).unwrap()).map_err(|e| format!("write: {e}"))?;
    Ok(rf)
}
