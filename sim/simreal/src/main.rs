//! simreal — guard OFF: the library exactly as shipped, real threads, the real
//! `available_parallelism()` (restrict it with `taskset`). Prints one line per
//! corpus case; `./check selftest fidelity` compares the listing with what the
//! simulator computes for the same CPU count. A self-test of the seam stub,
//! not a property check (real threads do not replay).

use graaf::{
    AddArc, AdjacencyList, AdjacencyMap, Arcs, Complement, Complete, DegreeSequence, Empty, FilterVertices,
    IsSemicomplete, Order, RemoveArc, Union, Vertices,
};
use vmodel::dg::Dg;
use vmodel::gen::{fidelity_corpus, fidelity_line};

fn list(d: &Dg) -> AdjacencyList {
    AdjacencyList::from(d.rows())
}

fn map(d: &Dg) -> AdjacencyMap {
    if d.is_contiguous() {
        let mut m = AdjacencyMap::empty(d.order());
        for &(u, v) in &d.a {
            m.add_arc(u, v);
        }
        return m;
    }
    let mut m = AdjacencyMap::empty(1);
    for &x in &d.v {
        if x != 0 {
            m.add_arc(0, x);
            let _ = m.remove_arc(0, x);
        }
    }
    for &(u, v) in &d.a {
        m.add_arc(u, v);
    }
    if d.v.contains(&0) {
        m
    } else {
        m.filter_vertices(|x| x != 0)
    }
}

fn main() {
    let cpus = std::thread::available_parallelism().map_or(0, std::num::NonZero::get);
    println!("cpus {cpus}");
    for (i, (kind, d, e)) in fidelity_corpus().into_iter().enumerate() {
        let line = match kind {
            "complement" => {
                let r = list(&d).complement();
                let (v, a): (Vec<_>, Vec<_>) = (r.vertices().collect(), r.arcs().collect());
                let ok = Dg::from_parts(v.iter().copied(), a.iter().copied()) == d.complement();
                fidelity_line(kind, i, &v, &a, &[], false, ok)
            }
            "complete" => {
                let r = AdjacencyList::complete(d.order());
                let (v, a): (Vec<_>, Vec<_>) = (r.vertices().collect(), r.arcs().collect());
                let ok = Dg::from_parts(v.iter().copied(), a.iter().copied()) == Dg::complete(d.order());
                fidelity_line(kind, i, &v, &a, &[], false, ok)
            }
            "degree_sequence" => {
                let s: Vec<usize> = list(&d).degree_sequence().collect();
                let ok = s == d.degree_sequence();
                fidelity_line(kind, i, &[], &[], &s, false, ok)
            }
            "is_semicomplete" => {
                let b = list(&d).is_semicomplete();
                fidelity_line(kind, i, &[], &[], &[], b, b == d.is_semicomplete())
            }
            "list_union" => {
                let r = list(&d).union(&list(&e));
                let (v, a): (Vec<_>, Vec<_>) = (r.vertices().collect(), r.arcs().collect());
                let ok = Dg::from_parts(v.iter().copied(), a.iter().copied()) == d.union(&e) && r.order() == v.len();
                fidelity_line(kind, i, &v, &a, &[], false, ok)
            }
            _ => {
                let r = map(&d).union(&map(&e));
                let (v, a): (Vec<_>, Vec<_>) = (r.vertices().collect(), r.arcs().collect());
                let ok = Dg::from_parts(v.iter().copied(), a.iter().copied()) == d.union(&e);
                fidelity_line(kind, i, &v, &a, &[], false, ok)
            }
        };
        println!("{line}");
    }
}
