//! simmem — runs the C13 program catalogue (sim/vprog) under Miri. Miri is the
//! simulator here: it executes the whole program, including std threads,
//! under its own seeded scheduler, checks every access against allocation
//! bounds and liveness, detects data races and double frees, emulates weak
//! memory, and reports leaks at exit.
//!
//!   simmem list                         (natively) the catalogue, one `<index> <name>` per line
//!   simmem run [<index>:]<name>...      (under Miri) run the named programs
//!   simmem judge <case index>...        (under Miri) threaded operations judged against the model
//!
//! Every program is announced with `BEGIN <index> <name>` before it runs and
//! `END <index> returned|panicked` after; a Miri diagnostic ends the process,
//! and the driver attributes it to the program in flight.

use std::io::Write;
use vprog::{catalogue, run, Outcome};

fn main() {
    // the documented panics are expected: keep them quiet
    std::panic::set_hook(Box::new(|_| {}));
    let args: Vec<String> = std::env::args().collect();
    match args.get(1).map(String::as_str) {
        Some("list") => {
            // (run natively: building the whole catalogue is slow under Miri)
            for (i, p) in catalogue().iter().enumerate() {
                println!("{i} {}", p.name());
            }
        }
        Some("run") => {
            // `run <index>:<name>...`: programs are addressed by name; the index is only echoed
            for a in &args[2..] {
                let (idx, name) = a.split_once(':').unwrap_or(("0", a.as_str()));
                let Some(p) = vprog::find(name) else {
                    eprintln!("unknown program {name}");
                    std::process::exit(2);
                };
                one(idx.parse().unwrap_or(0), &p);
            }
        }
        Some("judge") => {
            // `judge <case index>...`: results of the threaded operations judged against the model
            for a in &args[2..] {
                let i: usize = a.parse().expect("case index");
                let c = vprog::judge::case(i);
                println!("BEGIN {i} judge/{}/n{}/t{}", c.kind, c.d.order(), c.t);
                let _ = std::io::stdout().flush();
                match vprog::judge::run(&c) {
                    Ok(()) => println!("END {i} returned 0"),
                    Err(why) => println!("END {i} MISMATCH {why}"),
                }
                let _ = std::io::stdout().flush();
            }
        }
        _ => {
            eprintln!("usage: simmem list | run [<index>:]<name>... | judge <case>...");
            std::process::exit(2);
        }
    }
    println!("DONE");
}

fn one(i: usize, p: &vprog::Prog) {
    println!("BEGIN {i} {}", p.name());
    let _ = std::io::stdout().flush();
    let o = run(p);
    match o {
        Outcome::Returned(v) => println!("END {i} returned {v}"),
        Outcome::Panicked(m) => println!("END {i} panicked {}", m.lines().next().unwrap_or("")),
    }
    let _ = std::io::stdout().flush();
}
