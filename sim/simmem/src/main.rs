fn main(){}
