//! simmem — runs the C13 program catalogue (sim/vprog) under Miri. Miri is the
//! simulator here: it executes the whole program, including std threads,
//! under its own seeded scheduler, checks every access against allocation
//! bounds and liveness, detects data races and double frees, emulates weak
//! memory, and reports leaks at exit.
//!
//!   simmem list                         (natively) the catalogue, one `<index> <name>` per line
//!   simmem run [<index>:]<name>...      (under Miri) run the named programs
//!   simmem judge <case index>...        (under Miri) threaded operations judged against the model
//!
//! Every program is announced with `BEGIN <index> <name>` before it runs and
//! `END <index> returned|panicked` after; a Miri diagnostic ends the process,
//! and the driver attributes it to the program in flight.

use std::io::Write;
use vprog::{catalogue, run, Outcome};

fn main() {
    // the documented panics are expected: keep them quiet
    std::panic::set_hook(Box::new(|_| {}));
    let args: Vec<String> = std::env::args().collect();
    match args.get(1).map(String::as_str) {
        Some("list") => {
            // (run natively: building the whole catalogue is slow under Miri)
            for (i, p) in catalogue().iter().enumerate() {
                println!("{i} {}", p.name());
            }
        }
        Some("run") => {
            // `run <index>:<name>...`: programs are addressed by name; the index is only echoed.
            // (raw writes: the formatting machinery is slow under Miri)
            let out = std::io::stdout();
            for a in &args[2..] {
                let (idx, name) = a.split_once(':').unwrap_or(("0", a.as_str()));
                let Some(p) = vprog::find(name) else {
                    eprintln!("unknown program {name}");
                    std::process::exit(2);
                };
                {
                    let mut o = out.lock();
                    let _ = o.write_all(b"BEGIN ");
                    let _ = o.write_all(idx.as_bytes());
                    let _ = o.write_all(b" ");
                    let _ = o.write_all(name.as_bytes());
                    let _ = o.write_all(b"\n");
                    let _ = o.flush();
                }
                let r = run(&p);
                let mut o = out.lock();
                let _ = o.write_all(b"END ");
                let _ = o.write_all(idx.as_bytes());
                match r {
                    Outcome::Returned(_) => {
                        let _ = o.write_all(b" returned\n");
                    }
                    Outcome::Panicked(m) => {
                        let _ = o.write_all(b" panicked ");
                        let _ = o.write_all(m.lines().next().unwrap_or("").as_bytes());
                        let _ = o.write_all(b"\n");
                    }
                }
                let _ = o.flush();
            }
        }
        Some("bench") => {
            // micro-benchmark of the harness overhead under Miri (development aid)
            let what = args[2].as_str();
            let name = "order_size/L/cycle5/in0/in0/cb0/t0";
            for _ in 0..200 {
                match what {
                    "find" => {
                        let _ = std::hint::black_box(vprog::find(name));
                    }
                    "dg" => {
                        let _ = std::hint::black_box(vprog::Shape::Cycle5.dg());
                    }
                    "run" => {
                        let p = vprog::find(name).unwrap();
                        let _ = std::hint::black_box(run(&p));
                    }
                    _ => {
                        let mut o = std::io::stdout().lock();
                        let _ = o.write_all(b"BEGIN 1 x\n");
                        let _ = o.flush();
                    }
                }
            }
        }
        Some("judge") => {
            // `judge <case index>...`: results of the threaded operations judged against the model
            for a in &args[2..] {
                let i: usize = a.parse().expect("case index");
                let c = vprog::judge::case(i);
                println!("BEGIN {i} judge/{}/n{}/t{}", c.kind, c.d.order(), c.t);
                let _ = std::io::stdout().flush();
                match vprog::judge::run(&c) {
                    Ok(()) => println!("END {i} returned 0"),
                    Err(why) => println!("END {i} MISMATCH {why}"),
                }
                let _ = std::io::stdout().flush();
            }
        }
        _ => {
            eprintln!("usage: simmem list | run [<index>:]<name>... | judge <case>...");
            std::process::exit(2);
        }
    }
    println!("DONE");
}

fn one(i: usize, p: &vprog::Prog) {
    println!("BEGIN {i} {}", p.name());
    let _ = std::io::stdout().flush();
    let o = run(p);
    match o {
        Outcome::Returned(v) => println!("END {i} returned {v}"),
        Outcome::Panicked(m) => println!("END {i} panicked {}", m.lines().next().unwrap_or("")),
    }
    let _ = std::io::stdout().flush();
}
