//! Catalogue of short API programs for C13 ("the safe API is memory-safe and
//! leak-free for every argument"). One program = build a small digraph in one
//! representation, call one public entry point with one argument class
//! (in-range id, `order`, `order + 1`, a far-out id, ...), drain what it
//! returns, drop everything. The same catalogue is executed
//!
//! * by `simmem` under Miri (the simulator that detects out-of-bounds
//!   accesses, use-after-free, double free, data races and leaks), and
//! * by `simsched` natively with the allocation ledger ("repeating a call does
//!   not grow the heap").
//!
//! Only the safe public API of graaf is used. Nothing here judges *answers*:
//! a panic or any returned value is acceptable for C13.

#![allow(non_snake_case)]

use graaf::gen::prng::Xoshiro256StarStar;
use graaf::*;
use std::cell::Cell;
use std::collections::{BTreeMap, BTreeSet};
use std::panic::{catch_unwind, AssertUnwindSafe};
use vmodel::dg::Dg;

#[derive(Clone, Copy, Debug, PartialEq, Eq, Hash, PartialOrd, Ord)]
pub enum Repr {
    L,
    M,
    X,
    E,
    WI,
    WU,
}

impl Repr {
    pub fn name(self) -> &'static str {
        match self {
            Repr::L => "AdjacencyList",
            Repr::M => "AdjacencyMap",
            Repr::X => "AdjacencyMatrix",
            Repr::E => "EdgeList",
            Repr::WI => "AdjacencyListWeighted<isize>",
            Repr::WU => "AdjacencyListWeighted<usize>",
        }
    }
    pub fn tag(self) -> &'static str {
        match self {
            Repr::L => "L",
            Repr::M => "M",
            Repr::X => "X",
            Repr::E => "E",
            Repr::WI => "WI",
            Repr::WU => "WU",
        }
    }
}

#[derive(Clone, Copy, Debug, PartialEq, Eq, Hash)]
pub enum Shape {
    Trivial,
    Path4,
    Cycle5,
    Dense5,
    TwoScc6,
    /// order 8: 64 cells, the bit matrix ends exactly on a word boundary; the last vertex is a sink
    Path8,
    /// AdjacencyMap only: V = {0, 2, 9}, arcs 0->2, 2->9, 9->0
    MapGap,
    /// AdjacencyMap only: V = {0, 1, 7}, arcs 0->7, 7->1 (a successor id >= order)
    MapHigh,
    /// AdjacencyMap only: V = {0, 1, 70}, arcs 70->0, 0->1 (a *tail* far beyond the order, heads in range)
    MapTail,
    /// AdjacencyMap only: V = {0, 1, 2^40}, arcs 0->2^40, 2^40->1 (an id that no vector may be sized by)
    MapFar,
    /// AdjacencyMap only: no vertex at all - not constructible directly, but reachable through the safe
    /// API as `filter_vertices(|_| false)` (and from there through complement / converse / union)
    MapEmpty,
}

pub const SHAPES: [Shape; 11] = [
    Shape::Trivial,
    Shape::Path4,
    Shape::Cycle5,
    Shape::Dense5,
    Shape::TwoScc6,
    Shape::Path8,
    Shape::MapGap,
    Shape::MapHigh,
    Shape::MapTail,
    Shape::MapFar,
    Shape::MapEmpty,
];

impl Shape {
    pub fn tag(self) -> &'static str {
        match self {
            Shape::Trivial => "trivial",
            Shape::Path4 => "path4",
            Shape::Cycle5 => "cycle5",
            Shape::Dense5 => "dense5",
            Shape::TwoScc6 => "twoscc6",
            Shape::Path8 => "path8",
            Shape::MapGap => "mapgap",
            Shape::MapHigh => "maphigh",
            Shape::MapTail => "maptail",
            Shape::MapFar => "mapfar",
            Shape::MapEmpty => "mapempty",
        }
    }
    /// The model digraph of the shape: built once, handed out by reference (cloning ordered sets is as
    /// slow under Miri as building them).
    pub fn dg(self) -> &'static Dg {
        static ALL: std::sync::OnceLock<Vec<Dg>> = std::sync::OnceLock::new();
        let all = ALL.get_or_init(|| SHAPES.iter().map(|s| s.build_dg()).collect());
        &all[SHAPES.iter().position(|s| *s == self).unwrap()]
    }

    fn build_dg(self) -> Dg {
        match self {
            Shape::Trivial => Dg::empty(1),
            Shape::Path4 => Dg::path(4),
            Shape::Cycle5 => Dg::cycle(5),
            Shape::Dense5 => {
                let mut d = Dg::complete(5);
                let _ = d.a.remove(&(0, 4));
                let _ = d.a.remove(&(3, 1));
                d
            }
            Shape::TwoScc6 => Dg::from_arcs(6, [(0, 1), (1, 2), (2, 0), (3, 4), (4, 5), (5, 3), (2, 3), (0, 4)]),
            Shape::Path8 => Dg::path(8),
            Shape::MapGap => Dg::from_parts([0, 2, 9], [(0, 2), (2, 9), (9, 0)]),
            Shape::MapHigh => Dg::from_parts([0, 1, 7], [(0, 7), (7, 1)]),
            Shape::MapTail => Dg::from_parts([0, 1, 70], [(70, 0), (0, 1)]),
            Shape::MapFar => Dg::from_parts([0, 1, 1 << 40], [(0, 1 << 40), (1 << 40, 1)]),
            Shape::MapEmpty => Dg::from_parts([], []),
        }
    }
    pub fn contiguous(self) -> bool {
        !matches!(self, Shape::MapGap | Shape::MapHigh | Shape::MapTail | Shape::MapFar | Shape::MapEmpty)
    }
}

#[derive(Clone, Copy, Debug, PartialEq, Eq, Hash)]
pub enum Id {
    /// smallest vertex
    In0,
    /// largest vertex
    InLast,
    /// `order()`: the first id outside a contiguous digraph
    Order,
    OrderP1,
    /// 2^40
    Far,
    /// usize::MAX
    Max,
}

pub const IDS: [Id; 6] = [Id::In0, Id::InLast, Id::Order, Id::OrderP1, Id::Far, Id::Max];

impl Id {
    pub fn tag(self) -> &'static str {
        match self {
            Id::In0 => "in0",
            Id::InLast => "inlast",
            Id::Order => "order",
            Id::OrderP1 => "order+1",
            Id::Far => "far",
            Id::Max => "max",
        }
    }
    pub fn of(self, d: &Dg) -> usize {
        match self {
            Id::In0 => d.v.iter().next().copied().unwrap_or(0),
            Id::InLast => d.v.iter().next_back().copied().unwrap_or(0),
            Id::Order => d.order(),
            Id::OrderP1 => d.order() + 1,
            Id::Far => 1 << 40,
            Id::Max => usize::MAX,
        }
    }
    pub fn in_range(self) -> bool {
        matches!(self, Id::In0 | Id::InLast)
    }
}

#[derive(Clone, Debug, PartialEq, Eq, Hash)]
pub struct Prog {
    pub entry: &'static str,
    pub repr: Repr,
    pub shape: Shape,
    pub x: Id,
    pub y: Id,
    /// callback / iterator panics at its cb-th invocation (0 = never)
    pub cb: u8,
    /// simulated CPU count for the threaded operations (0 = not applicable)
    pub t: u8,
}

impl Prog {
    pub fn name(&self) -> String {
        format!("{}/{}/{}/{}/{}/cb{}/t{}", self.entry, self.repr.tag(), self.shape.tag(), self.x.tag(), self.y.tag(), self.cb, self.t)
    }
    pub fn entry_point(&self) -> String {
        format!("{}::{}", self.repr.name(), self.entry)
    }
    /// the input class used in violation signatures
    pub fn input_class(&self) -> String {
        if self.entry == "seq" {
            return "call_sequence".to_string();
        }
        if self.entry == "rand_algo" || self.entry == "rand_tree" {
            return "generated_structure".to_string();
        }
        let shape = if self.shape.contiguous() { "contiguous" } else { self.shape.tag() };
        let arg = if self.x.in_range() && self.y.in_range() { "in_range".to_string() } else { format!("x={},y={}", self.x.tag(), self.y.tag()) };
        let cb = if self.cb > 0 { ",callback_panic" } else { "" };
        format!("{shape},{arg}{cb}")
    }
}

#[derive(Clone, Copy, PartialEq, Eq, Debug)]
pub enum Args {
    None,
    X,
    XY,
    /// generator parameter classes instead of vertex ids
    Gen,
}

pub struct Entry {
    pub name: &'static str,
    pub reprs: &'static [Repr],
    pub args: Args,
    /// takes a user callback / iterator that may panic
    pub cb: bool,
    pub threaded: bool,
}

use Repr::{E, L, M, WI, WU, X};
const ALL: &[Repr] = &[L, M, X, E, WI, WU];
const UNW: &[Repr] = &[L, M, X, E];
const WGT: &[Repr] = &[WI, WU];
const FIX: &[Repr] = &[L, X, E, WI, WU];

macro_rules! e {
    ($name:expr, $reprs:expr, $args:expr) => {
        Entry { name: $name, reprs: $reprs, args: $args, cb: false, threaded: false }
    };
    ($name:expr, $reprs:expr, $args:expr, cb) => {
        Entry { name: $name, reprs: $reprs, args: $args, cb: true, threaded: false }
    };
    ($name:expr, $reprs:expr, $args:expr, threaded) => {
        Entry { name: $name, reprs: $reprs, args: $args, cb: false, threaded: true }
    };
}

pub const ENTRIES: &[Entry] = &[
    // ---- constructors / generators (x = parameter class)
    e!("empty", ALL, Args::Gen),
    e!("complete", UNW, Args::Gen),
    e!("complete_threaded", &[L], Args::Gen, threaded),
    e!("circuit", UNW, Args::Gen),
    e!("cycle", UNW, Args::Gen),
    e!("path", UNW, Args::Gen),
    e!("star", UNW, Args::Gen),
    e!("wheel", UNW, Args::Gen),
    e!("biclique", UNW, Args::Gen),
    e!("random_tournament", &[L, X, E], Args::Gen),
    e!("random_tournament_threaded", &[M], Args::Gen, threaded),
    e!("random_recursive_tree", UNW, Args::Gen),
    e!("erdos_renyi", &[L, X, E], Args::Gen),
    e!("erdos_renyi_threaded", &[M], Args::Gen, threaded),
    e!("empty_huge", &[X, E], Args::None),
    // ---- conversions
    e!("from_list", &[M, X, E, WI, WU], Args::None),
    e!("from_map", &[L, X, E, WI, WU], Args::None),
    e!("from_matrix", &[L, M, E, WI, WU], Args::None),
    e!("from_edge_list", &[L, M, X, WI, WU], Args::None),
    e!("from_rows", &[L, M, WI, WU], Args::X, cb),
    e!("from_arcs", &[X, E], Args::XY, cb),
    // ---- mutation
    e!("add_arc", UNW, Args::XY),
    e!("add_arc_weighted", WGT, Args::XY),
    e!("remove_arc", ALL, Args::XY),
    e!("toggle", &[X], Args::XY),
    // ---- queries without vertex argument
    e!("arcs", ALL, Args::None),
    e!("arcs_weighted", WGT, Args::None),
    e!("vertices", ALL, Args::None),
    e!("order_size", ALL, Args::None),
    e!("sinks_sources", ALL, Args::None),
    e!("degree_sequence", &[M, X, E, WI, WU], Args::None),
    e!("degree_sequence_threaded", &[L], Args::None, threaded),
    e!("indegree_sequence", ALL, Args::None),
    e!("outdegree_sequence", ALL, Args::None),
    e!("semidegree_sequence", ALL, Args::None),
    e!("min_max_degrees", ALL, Args::None),
    e!("predicates", &[M, X, E, WI, WU], Args::None),
    e!("predicates_list", &[L], Args::None),
    e!("is_semicomplete_threaded", &[L], Args::None, threaded),
    e!("sub_super_spanning", ALL, Args::None),
    e!("eq_hash_clone", ALL, Args::None),
    // ---- queries with vertex arguments
    e!("out_neighbors", ALL, Args::X),
    e!("out_neighbors_weighted", WGT, Args::X),
    e!("in_neighbors", ALL, Args::X),
    e!("indegree", ALL, Args::X),
    e!("outdegree", ALL, Args::X),
    e!("degree", ALL, Args::X),
    e!("is_sink", ALL, Args::X),
    e!("is_source", ALL, Args::X),
    e!("is_isolated", ALL, Args::X),
    e!("is_pendant", ALL, Args::X),
    e!("has_arc", ALL, Args::XY),
    e!("has_edge", ALL, Args::XY),
    e!("arc_weight", WGT, Args::XY),
    e!("has_walk", ALL, Args::XY),
    // ---- operations
    e!("complement", &[M, X, E], Args::None),
    e!("complement_threaded", &[L], Args::None, threaded),
    e!("converse", ALL, Args::None),
    e!("union", &[X, E], Args::None),
    e!("union_threaded", &[L, M], Args::None, threaded),
    e!("filter_vertices", &[M], Args::X, cb),
    // ---- algorithms
    e!("bfs", ALL, Args::X, cb),
    e!("bfs_dist", ALL, Args::X),
    e!("bfs_dist_distances", ALL, Args::X),
    e!("bfs_pred", ALL, Args::X),
    e!("bfs_pred_predecessors", ALL, Args::X),
    e!("bfs_pred_shortest_path", ALL, Args::XY, cb),
    e!("bfs_pred_cycles", ALL, Args::X),
    e!("dfs", ALL, Args::X, cb),
    e!("dfs_dist", ALL, Args::X),
    e!("dfs_pred", ALL, Args::X),
    e!("dfs_pred_predecessors", ALL, Args::X),
    e!("dijkstra", &[WU], Args::X, cb),
    e!("dijkstra_dist", &[WU], Args::X),
    e!("dijkstra_dist_distances", &[WU], Args::X),
    e!("dijkstra_pred", &[WU], Args::X),
    e!("dijkstra_pred_predecessors", &[WU], Args::X),
    e!("dijkstra_pred_shortest_path", &[WU], Args::XY, cb),
    e!("bellman_ford_moore", &[WI], Args::X),
    e!("floyd_warshall", &[WI], Args::None),
    e!("floyd_warshall_metrics", &[WI], Args::XY),
    e!("tarjan", UNW, Args::None),
    e!("johnson_75", &[M], Args::None),
    e!("distance_matrix", &[WI], Args::XY),
    e!("distance_matrix_huge", &[WI], Args::None),
    e!("predecessor_tree_search", FIX, Args::XY),
    e!("predecessor_tree_search_by", FIX, Args::XY, cb),
    e!("predecessor_tree_user_built", &[L], Args::XY),
    // clone a traversal (before and in the middle of the search) and advance original and clone
    e!("traversal_clone", ALL, Args::X),
    e!("dijkstra_clone", &[WU], Args::X),
    // the std-trait surface (Debug, Clone::clone_from, ==, Hash, Ord, Index...) of digraphs, traversals and
    // algorithm objects: API that callers reach without naming a graaf method
    e!("std_traits", ALL, Args::None),
    e!("traversal_traits", ALL, Args::X),
    e!("algo_object_traits", &[L, M, WI, WU], Args::XY),
    // the iterator protocol: next() after exhaustion, size_hint, dropping half-consumed iterators
    e!("iter_protocol", ALL, Args::X),
    // stateful traversal objects: advance the iterator y-class many steps (0, 1, 2, 3, 5, all), then call the
    // finishing methods (distances / predecessors / shortest_path / cycles), a second one on the same object
    e!("advance_finish", ALL, Args::XY),
    e!("dijkstra_advance_finish", &[WU], Args::XY),
    // adversarial (but safe) iterator arguments: clones that share one cursor, size hints that lie, endless
    // repetition - every traversal constructor, x in range, the "other" id taken from the y class
    e!("evil_sources", ALL, Args::XY),
    e!("dijkstra_evil_sources", &[WU], Args::XY),
    e!("prng", &[L], Args::None),
    // two caller threads use one borrowed digraph at the same time (every digraph type is `Sync`): queries,
    // traversals, clones and - for the list and the map - the hand-threaded operations, whose workers then
    // run beside another caller's workers; t = simulated CPU count
    e!("shared_callers", ALL, Args::X, threaded),
    // generated call sequences: (x, y, cb, t) only encode the sequence's seed
    e!("seq", UNW, Args::XY),
    // generated digraph structures (DAGs, several strong components, long chains, stars, layers, unreachable
    // parts, negative and zero weights) under the traversals and algorithms: (x, y, cb, t) encode the seed
    e!("rand_algo", ALL, Args::XY),
    // generated *user-built* predecessor trees (functional graphs: one cycle through every vertex, a cycle
    // with tails, self-loops, forests, an out-of-range entry) under search / search_by, target found or not
    e!("rand_tree", &[L], Args::XY),
];

/// The complete catalogue, in a fixed order.
pub fn catalogue() -> Vec<Prog> {
    let mut out = Vec::new();
    for en in ENTRIES {
        if en.name == "seq" || en.name == "rand_algo" || en.name == "rand_tree" {
            for &repr in en.reprs {
                for &x in &IDS {
                    for &y in &IDS {
                        for cb in 0..3u8 {
                            for t in 0..5u8 {
                                out.push(Prog { entry: en.name, repr, shape: Shape::Trivial, x, y, cb, t });
                            }
                        }
                    }
                }
            }
            continue;
        }
        for &repr in en.reprs {
            let shapes: Vec<Shape> = if en.args == Args::Gen || matches!(en.name, "empty_huge" | "distance_matrix_huge" | "prng") {
                vec![Shape::Trivial]
            } else if en.name == "shared_callers" {
                // two callers double the cost under Miri: two shapes. Contiguous ones only: the traversals answer
                // a non-contiguous map with their documented panic, and a panic must not unwind a spawned task
                // of a scheduled execution (see the ids below)
                vec![Shape::Dense5, Shape::TwoScc6]
            } else {
                // non-contiguous shapes exist only as AdjacencyMap values: for the map itself, and as the
                // *source* of a conversion out of a map
                SHAPES.iter().copied().filter(|s| s.contiguous() || repr == M || en.name == "from_map").collect()
            };
            for shape in shapes {
                let xs: &[Id] = match en.args {
                    Args::None if en.name == "empty_huge" && repr == X => &IDS,
                    Args::None => &[Id::In0],
                    // Gen: x selects the parameter class (0 -> order 0, ... see gen_order)
                    Args::Gen => &[Id::In0, Id::InLast, Id::Order, Id::OrderP1],
                    // in-range ids only: a panic that unwinds a *spawned* task inside a shuttle execution (even when
                    // caught there) corrupted the native heap in a trial (malloc(): unaligned tcache chunk)
                    _ if en.name == "shared_callers" => &[Id::In0, Id::InLast],
                    _ => &IDS,
                };
                for &x in xs {
                    let ys: Vec<Id> = match en.args {
                        Args::XY if x.in_range() => IDS.to_vec(),
                        // one bad position at a time, plus both bad
                        Args::XY => vec![Id::In0, x],
                        _ => vec![Id::In0],
                    };
                    for y in ys {
                        let cbs: &[u8] = if en.cb && x.in_range() && y.in_range() { &[0, 1, 2] } else { &[0] };
                        for &cb in cbs {
                            let ts: &[u8] = if en.name == "shared_callers" {
                                // one CPU count per shape (these programs also run under every Miri seed of
                                // the thread dimension)
                                if shape == Shape::Dense5 { &[2] } else { &[3] }
                            } else if en.threaded {
                                &[1, 2, 3, 4]
                            } else {
                                &[0]
                            };
                            for &t in ts {
                                out.push(Prog { entry: en.name, repr, shape, x, y, cb, t });
                            }
                        }
                    }
                }
            }
        }
    }
    out
}

/// Parse a program name (`entry/repr/shape/x/y/cbN/tN`) without building the
/// catalogue (which is slow under Miri).
/// Programs whose arguments are all inside the digraph and whose callbacks do not panic: these are
/// the ones that can be expected to return normally whatever the tree looks like.
pub fn is_safe_subset(p: &Prog) -> bool {
    let gen = ENTRIES.iter().find(|e| e.name == p.entry).is_some_and(|e| e.args == Args::Gen);
    (gen || (p.x.in_range() && p.y.in_range())) && p.cb == 0 && p.shape.contiguous() && !p.entry.contains("huge") && p.entry != "seq" && p.entry != "rand_algo" && p.entry != "rand_tree"
}

pub fn find(name: &str) -> Option<Prog> {
    // hand-rolled: iterator adaptors and collect() are slow under Miri
    let (e, rest) = name.split_once('/')?;
    let (r, rest) = rest.split_once('/')?;
    let (sh, rest) = rest.split_once('/')?;
    let (xs, rest) = rest.split_once('/')?;
    let (ys, rest) = rest.split_once('/')?;
    let (cbs, ts) = rest.split_once('/')?;
    let mut entry = None;
    for en in ENTRIES {
        if en.name == e {
            entry = Some(en.name);
            break;
        }
    }
    let repr = match r {
        "L" => L,
        "M" => M,
        "X" => X,
        "E" => E,
        "WI" => WI,
        "WU" => WU,
        _ => return None,
    };
    let mut shape = None;
    for s in SHAPES {
        if s.tag() == sh {
            shape = Some(s);
            break;
        }
    }
    let id = |t: &str| -> Option<Id> {
        Some(match t {
            "in0" => Id::In0,
            "inlast" => Id::InLast,
            "order" => Id::Order,
            "order+1" => Id::OrderP1,
            "far" => Id::Far,
            "max" => Id::Max,
            _ => return None,
        })
    };
    let digit = |t: &str, prefix: &str| -> Option<u8> {
        let d = t.strip_prefix(prefix)?.as_bytes();
        if d.len() == 1 && d[0].is_ascii_digit() {
            Some(d[0] - b'0')
        } else {
            None
        }
    };
    Some(Prog { entry: entry?, repr, shape: shape?, x: id(xs)?, y: id(ys)?, cb: digit(cbs, "cb")?, t: digit(ts, "t")? })
}

// ------------------------------------------------------------------ builders

mod mk {
    use super::*;
    use std::sync::{Mutex, PoisonError};

    /// Built values are cached per model digraph and handed out as clones: a clone copies tree nodes,
    /// building inserts element by element through the public API, which is what takes the time under
    /// Miri. The cache lives in statics, so it is neither a leak for Miri nor (after the warm-up
    /// execution) a change of the ledger's balance.
    macro_rules! cached {
        ($name:ident, $build:ident, $T:ty) => {
            pub fn $name(d: &Dg) -> $T {
                // keyed by the address of the shape's static model digraph; other digraphs are built afresh
                static CACHE: Mutex<Vec<(usize, $T)>> = Mutex::new(Vec::new());
                let key = std::ptr::from_ref(d) as usize;
                let is_shape = SHAPES.iter().any(|s| std::ptr::eq(s.dg(), d));
                if !is_shape {
                    return $build(d);
                }
                let mut c = CACHE.lock().unwrap_or_else(PoisonError::into_inner);
                if let Some((_, g)) = c.iter().find(|(k, _)| *k == key) {
                    return g.clone();
                }
                let g = $build(d);
                c.push((key, g.clone()));
                g
            }
        };
    }
    cached!(L, build_L, AdjacencyList);
    cached!(M, build_M, AdjacencyMap);
    cached!(X, build_X, AdjacencyMatrix);
    cached!(E, build_E, EdgeList);
    cached!(WI, build_WI, AdjacencyListWeighted<isize>);
    cached!(WU, build_WU, AdjacencyListWeighted<usize>);

    fn build_L(d: &Dg) -> AdjacencyList {
        AdjacencyList::from(d.rows())
    }
    fn build_M(d: &Dg) -> AdjacencyMap {
        if d.v.is_empty() {
            return AdjacencyMap::empty(1).filter_vertices(|_| false);
        }
        if d.is_contiguous() {
            let mut m = AdjacencyMap::empty(d.order());
            for &(u, v) in &d.a {
                m.add_arc(u, v);
            }
            return m;
        }
        let mut m = AdjacencyMap::empty(1);
        for &x in &d.v {
            if x != 0 {
                m.add_arc(0, x);
                let _ = m.remove_arc(0, x);
            }
        }
        for &(u, v) in &d.a {
            m.add_arc(u, v);
        }
        if d.v.contains(&0) {
            m
        } else {
            m.filter_vertices(|x| x != 0)
        }
    }
    fn build_X(d: &Dg) -> AdjacencyMatrix {
        let mut m = AdjacencyMatrix::empty(d.order());
        for &(u, v) in &d.a {
            m.add_arc(u, v);
        }
        m
    }
    fn build_E(d: &Dg) -> EdgeList {
        let mut m = EdgeList::empty(d.order());
        for &(u, v) in &d.a {
            m.add_arc(u, v);
        }
        m
    }
    fn build_WI(d: &Dg) -> AdjacencyListWeighted<isize> {
        let mut m = AdjacencyListWeighted::<isize>::empty(d.order());
        for &(u, v) in &d.a {
            m.add_arc_weighted(u, v, 1 + ((u * 3 + v) % 7) as isize);
        }
        m
    }
    fn build_WU(d: &Dg) -> AdjacencyListWeighted<usize> {
        let mut m = AdjacencyListWeighted::<usize>::empty(d.order());
        for &(u, v) in &d.a {
            m.add_arc_weighted(u, v, 1 + (u * 3 + v) % 7);
        }
        m
    }
}

macro_rules! on {
    ($p:expr, $d:expr, [$($R:ident),+], |$g:ident| $body:expr) => {
        match $p.repr {
            $(Repr::$R => {
                #[allow(unused_mut)]
                let mut $g = mk::$R($d);
                let r = $body;
                drop($g);
                r as u64
            })+
            #[allow(unreachable_patterns)]
            _ => unreachable!("entry {} is not defined for {:?}", $p.entry, $p.repr),
        }
    };
}

/// An iterator that panics when asked for its `at`-th item (1-based; 0 = never).
#[derive(Clone)]
pub struct PanicIter<I> {
    inner: I,
    at: usize,
    n: usize,
}

impl<I: Iterator> Iterator for PanicIter<I> {
    type Item = I::Item;
    fn next(&mut self) -> Option<I::Item> {
        self.n += 1;
        assert!(self.at == 0 || self.n != self.at, "injected panic in user iterator at item {}", self.n);
        self.inner.next()
    }
}

/// An iterator whose clones share one cursor (safe code: `Rc<Cell<usize>>`): what a clone yields depends
/// on how far any other copy has been advanced. A function that validates a clone of its argument and then
/// consumes the argument sees two different sequences.
#[derive(Clone)]
pub struct SharedCursor {
    items: std::rc::Rc<Vec<usize>>,
    pos: std::rc::Rc<Cell<usize>>,
}

impl SharedCursor {
    pub fn new(items: Vec<usize>) -> Self {
        Self { items: std::rc::Rc::new(items), pos: std::rc::Rc::new(Cell::new(0)) }
    }
}

impl Iterator for SharedCursor {
    type Item = usize;
    fn next(&mut self) -> Option<usize> {
        let i = self.pos.get();
        self.pos.set(i + 1);
        self.items.get(i).copied()
    }
}

/// An iterator whose `size_hint` claims exactly `claim` items whatever it yields.
#[derive(Clone)]
pub struct LyingHint<I> {
    inner: I,
    claim: usize,
}

impl<I: Iterator> Iterator for LyingHint<I> {
    type Item = I::Item;
    fn next(&mut self) -> Option<I::Item> {
        self.inner.next()
    }
    fn size_hint(&self) -> (usize, Option<usize>) {
        (self.claim, Some(self.claim))
    }
}

fn piter<I: Iterator>(inner: I, at: u8) -> PanicIter<I> {
    PanicIter { inner, at: at as usize, n: 0 }
}

/// Parameter for generators from the x class: 0, 1, 2, 6.
fn gen_order(x: Id) -> usize {
    match x {
        Id::In0 => 0,
        Id::InLast => 1,
        Id::Order => 2,
        _ => 6,
    }
}

/// Number of `next()` calls before the finishing method, from the y class.
fn advance_steps(y: Id) -> usize {
    match y {
        Id::In0 => 0,
        Id::InLast => 1,
        Id::Order => 2,
        Id::OrderP1 => 3,
        Id::Far => 5,
        Id::Max => usize::MAX,
    }
}

/// Fix the argument type of a caller's work closure from a witness value.
fn typed_work<G, F: Fn(&G, usize) -> usize>(_witness: &G, f: F) -> F {
    f
}

fn set_cpus(t: u8) {
    #[cfg(graaf_verif)]
    {
        use graaf::verif_seam::{set_parallelism, Parallelism};
        let _ = set_parallelism(if t == 0 {
            Parallelism::Std
        } else {
            Parallelism::Count(std::num::NonZero::new(t as usize).unwrap())
        });
    }
    #[cfg(not(graaf_verif))]
    let _ = t;
}

/// Execute the program body (may panic: the documented reaction to bad
/// arguments). Returns a small summary value so nothing is optimised away.
pub fn body(p: &Prog) -> u64 {
    let d = p.shape.dg();
    let x = p.x.of(d);
    let y = p.y.of(d);
    let cb = p.cb;
    set_cpus(p.t);
    let count = Cell::new(0usize);
    // user predicate that panics at its cb-th invocation
    let tick = |count: &Cell<usize>| {
        count.set(count.get() + 1);
        assert!(cb == 0 || count.get() != cb as usize, "injected panic in user callback at call {}", count.get());
    };
    match p.entry {
        // ---- generators
        "empty" => {
            let n = gen_order(p.x);
            match p.repr {
                L => AdjacencyList::empty(n).order() as u64,
                M => AdjacencyMap::empty(n).order() as u64,
                X => AdjacencyMatrix::empty(n).order() as u64,
                E => EdgeList::empty(n).order() as u64,
                WI => AdjacencyListWeighted::<isize>::empty(n).order() as u64,
                WU => AdjacencyListWeighted::<usize>::empty(n).order() as u64,
            }
        }
        "complete" | "circuit" | "cycle" | "path" | "star" | "wheel" | "biclique" | "random_recursive_tree"
        | "random_tournament" | "erdos_renyi" | "complete_threaded" | "random_tournament_threaded"
        | "erdos_renyi_threaded" => {
            let n = gen_order(p.x);
            macro_rules! gen {
                ($T:ty) => {
                    match p.entry {
                        "complete" | "complete_threaded" => <$T>::complete(n).size(),
                        "circuit" => <$T>::circuit(n).size(),
                        "cycle" => <$T>::cycle(n).size(),
                        "path" => <$T>::path(n).size(),
                        "star" => <$T>::star(n).size(),
                        "wheel" => <$T>::wheel(n + 2).size(),
                        "biclique" => <$T>::biclique(n, 2).size() + <$T>::biclique(3, n).size(),
                        "random_recursive_tree" => <$T>::random_recursive_tree(n, 7).size(),
                        "random_tournament" | "random_tournament_threaded" => <$T>::random_tournament(n, 7).size(),
                        _ => {
                            <$T>::erdos_renyi(n, 0.3, 7).size()
                                + <$T>::erdos_renyi(n.max(1), 0.9, 7).size()
                                + <$T>::erdos_renyi(n.max(1), if n == 6 { 1.5 } else { 1.0 }, 7).size()
                        }
                    }
                };
            }
            (match p.repr {
                L => gen!(AdjacencyList),
                M => gen!(AdjacencyMap),
                X => gen!(AdjacencyMatrix),
                E => gen!(EdgeList),
                _ => unreachable!(),
            }) as u64
        }
        "empty_huge" => match p.repr {
            X => {
                // order * order wraps in a release build: the block vector would be empty.
                // One call per program (the x class selects it), so that each is reached.
                let mut g = AdjacencyMatrix::empty(1 << 32);
                match p.x {
                    Id::In0 => g.has_arc(0, 1) as u64,
                    Id::InLast => {
                        g.add_arc(0, 1);
                        1
                    }
                    Id::Order => {
                        g.toggle(5, (1 << 32) - 1);
                        2
                    }
                    Id::OrderP1 => g.remove_arc(0, 1) as u64,
                    Id::Far => g.arcs().take(3).count() as u64,
                    Id::Max => (g.size() + g.outdegree(0) + g.indegree(1)) as u64,
                }
            }
            _ => {
                let mut g = EdgeList::empty(1 << 40);
                g.add_arc((1 << 40) - 1, 0);
                g.size() as u64 + g.has_arc(0, 1) as u64
            }
        },
        // ---- conversions
        "from_list" => {
            let s = mk::L(d);
            (match p.repr {
                M => AdjacencyMap::from(s).size(),
                X => AdjacencyMatrix::from(s).size(),
                E => EdgeList::from(s).size(),
                WI => AdjacencyListWeighted::<isize>::from(s).size(),
                WU => AdjacencyListWeighted::<usize>::from(s).size(),
                _ => unreachable!(),
            }) as u64
        }
        "from_map" => {
            // non-contiguous sources must be rejected with a panic, not converted by unchecked indexing
            let s = mk::M(d);
            (match p.repr {
                L => AdjacencyList::from(s).size(),
                X => AdjacencyMatrix::from(s).size(),
                E => EdgeList::from(s).size(),
                WI => AdjacencyListWeighted::<isize>::from(s).size(),
                WU => AdjacencyListWeighted::<usize>::from(s).size(),
                _ => unreachable!(),
            }) as u64
        }
        "from_matrix" => {
            let s = mk::X(d);
            (match p.repr {
                L => AdjacencyList::from(s).size(),
                M => AdjacencyMap::from(s).size(),
                E => EdgeList::from(s).size(),
                WI => AdjacencyListWeighted::<isize>::from(s).size(),
                WU => AdjacencyListWeighted::<usize>::from(s).size(),
                _ => unreachable!(),
            }) as u64
        }
        "from_edge_list" => {
            let s = mk::E(d);
            (match p.repr {
                L => AdjacencyList::from(s).size(),
                M => AdjacencyMap::from(s).size(),
                X => AdjacencyMatrix::from(s).size(),
                WI => AdjacencyListWeighted::<isize>::from(s).size(),
                WU => AdjacencyListWeighted::<usize>::from(s).size(),
                _ => unreachable!(),
            }) as u64
        }
        "from_rows" => {
            // rows of the shape, with one extra head `x` in row 0 (valid, self-loop, or out of range)
            let mut rows = if d.is_contiguous() { d.rows() } else { Dg::path(3).rows() };
            let _ = rows[0].insert(x);
            (match p.repr {
                L => AdjacencyList::from(piter(rows.into_iter(), cb)).size(),
                M => AdjacencyMap::from(piter(rows.into_iter(), cb)).size(),
                WI => AdjacencyListWeighted::<isize>::from(piter(
                    rows.into_iter().map(|r| r.into_iter().map(|v| (v, -3_isize)).collect::<BTreeMap<_, _>>()),
                    cb,
                ))
                .size(),
                WU => AdjacencyListWeighted::<usize>::from(piter(
                    rows.into_iter().map(|r| r.into_iter().map(|v| (v, 3_usize)).collect::<BTreeMap<_, _>>()),
                    cb,
                ))
                .size(),
                _ => unreachable!(),
            }) as u64
        }
        "from_arcs" => {
            let mut arcs: Vec<(usize, usize)> = d.a.iter().copied().collect();
            if p.x != Id::Far && p.x != Id::Max && p.y != Id::Far && p.y != Id::Max {
                // order = largest id + 1: far-out ids would make the constructor allocate that much
                arcs.push((x, y));
            } else {
                arcs.push((x.min(40), y.min(41)));
            }
            (match p.repr {
                X => AdjacencyMatrix::from(piter(arcs.into_iter(), cb)).size(),
                E => EdgeList::from(piter(arcs.into_iter(), cb)).size(),
                _ => unreachable!(),
            }) as u64
        }
        // ---- mutation
        "add_arc" => on!(p, d, [L, M, X, E], |g| {
            g.add_arc(x, y);
            g.size() + g.arcs().count() + g.vertices().count()
        }),
        "add_arc_weighted" => match p.repr {
            WI => {
                let mut g = mk::WI(d);
                g.add_arc_weighted(x, y, -5);
                g.arcs_weighted().count() as u64
            }
            _ => {
                let mut g = mk::WU(d);
                g.add_arc_weighted(x, y, 5);
                g.arcs_weighted().count() as u64
            }
        },
        "remove_arc" => on!(p, d, [L, M, X, E, WI, WU], |g| g.remove_arc(x, y) as usize + g.size()),
        "toggle" => {
            let mut g = mk::X(d);
            g.toggle(x, y);
            g.toggle(x, y);
            g.arcs().count() as u64
        }
        // ---- queries
        "arcs" => on!(p, d, [L, M, X, E, WI, WU], |g| g.arcs().count()),
        "arcs_weighted" => match p.repr {
            WI => mk::WI(d).arcs_weighted().map(|(_, _, &w)| w as u64).sum(),
            _ => mk::WU(d).arcs_weighted().map(|(_, _, &w)| w as u64).sum(),
        },
        "vertices" => on!(p, d, [L, M, X, E, WI, WU], |g| g.vertices().sum::<usize>()),
        "order_size" => match p.repr {
            M => on!(p, d, [M], |g| g.order() + g.size()),
            _ => on!(p, d, [L, X, E, WI, WU], |g| g.order() + g.size() + g.contiguous_order()),
        },
        "sinks_sources" => on!(p, d, [L, M, X, E, WI, WU], |g| g.sinks().count() + g.sources().count()),
        "degree_sequence" | "degree_sequence_threaded" => {
            on!(p, d, [L, M, X, E, WI, WU], |g| g.degree_sequence().sum::<usize>())
        }
        "indegree_sequence" => on!(p, d, [L, M, X, E, WI, WU], |g| g.indegree_sequence().sum::<usize>()),
        "outdegree_sequence" => on!(p, d, [L, M, X, E, WI, WU], |g| g.outdegree_sequence().sum::<usize>()),
        "semidegree_sequence" => {
            on!(p, d, [L, M, X, E, WI, WU], |g| g.semidegree_sequence().map(|(a, b)| a + b).sum::<usize>())
        }
        "min_max_degrees" => on!(p, d, [L, M, X, E, WI, WU], |g| g.max_degree()
            + g.min_degree()
            + g.max_indegree()
            + g.min_indegree()
            + g.max_outdegree()
            + g.min_outdegree()),
        "predicates" => on!(p, d, [M, X, E, WI, WU], |g| g.is_complete() as usize
            + g.is_semicomplete() as usize
            + g.is_tournament() as usize
            + g.is_regular() as usize
            + g.is_balanced() as usize
            + g.is_symmetric() as usize
            + g.is_oriented() as usize
            + g.is_simple() as usize),
        "predicates_list" => on!(p, d, [L], |g| g.is_complete() as usize
            + g.is_tournament() as usize
            + g.is_regular() as usize
            + g.is_balanced() as usize
            + g.is_symmetric() as usize
            + g.is_oriented() as usize
            + g.is_simple() as usize),
        "is_semicomplete_threaded" => {
            let a = mk::L(d).is_semicomplete() as u64;
            // a denser input passes the size shortcut and reaches the workers
            let b = mk::L(&Dg::complete(d.order())).is_semicomplete() as u64;
            a + b
        }
        "sub_super_spanning" => on!(p, d, [L, M, X, E, WI, WU], |g| {
            let h = g.converse();
            g.is_subdigraph(&h) as usize + h.is_superdigraph(&g) as usize + g.is_spanning_subdigraph(&h) as usize
        }),
        "eq_hash_clone" => on!(p, d, [L, M, X, E, WI, WU], |g| {
            use std::hash::{Hash, Hasher};
            let mut h = g.clone();
            let mut k = g.converse();
            k.clone_from(&g);
            h.clone_from(&k);
            let mut s = std::collections::hash_map::DefaultHasher::new();
            h.hash(&mut s);
            (g == h) as u64 + (g.cmp(&h) as i8 as u64) + (s.finish() & 1)
        }),
        "out_neighbors" => on!(p, d, [L, M, X, E, WI, WU], |g| g.out_neighbors(x).count()),
        "out_neighbors_weighted" => match p.repr {
            WI => mk::WI(d).out_neighbors_weighted(x).count() as u64,
            _ => mk::WU(d).out_neighbors_weighted(x).count() as u64,
        },
        "in_neighbors" => on!(p, d, [L, M, X, E, WI, WU], |g| g.in_neighbors(x).count()),
        "indegree" => on!(p, d, [L, M, X, E, WI, WU], |g| g.indegree(x)),
        "outdegree" => on!(p, d, [L, M, X, E, WI, WU], |g| g.outdegree(x)),
        "degree" => on!(p, d, [L, M, X, E, WI, WU], |g| g.degree(x)),
        "is_sink" => on!(p, d, [L, M, X, E, WI, WU], |g| g.is_sink(x)),
        "is_source" => on!(p, d, [L, M, X, E, WI, WU], |g| g.is_source(x)),
        "is_isolated" => on!(p, d, [L, M, X, E, WI, WU], |g| g.is_isolated(x)),
        "is_pendant" => on!(p, d, [L, M, X, E, WI, WU], |g| g.is_pendant(x)),
        "has_arc" => on!(p, d, [L, M, X, E, WI, WU], |g| g.has_arc(x, y)),
        "has_edge" => on!(p, d, [L, M, X, E, WI, WU], |g| g.has_edge(x, y)),
        "arc_weight" => match p.repr {
            WI => mk::WI(d).arc_weight(x, y).is_some() as u64,
            _ => mk::WU(d).arc_weight(x, y).is_some() as u64,
        },
        "has_walk" => on!(p, d, [L, M, X, E, WI, WU], |g| g.has_walk(&[]) as usize
            + g.has_walk(&[x]) as usize
            + g.has_walk(&[x, y]) as usize
            + g.has_walk(&[y, x, y, x]) as usize),
        // ---- operations
        "complement" | "complement_threaded" => on!(p, d, [L, M, X, E], |g| g.complement().size()),
        "converse" => on!(p, d, [L, M, X, E, WI, WU], |g| g.converse().size()),
        "union" | "union_threaded" => match (p.repr, p.shape) {
            (M, Shape::MapEmpty) => {
                // a vertex-less operand on either side of an inhabited one
                let g = mk::M(d);
                let h = mk::M(Shape::Path4.dg());
                (g.union(&h).size() + h.union(&g).size() + g.union(&g).order()) as u64
            }
            _ => on!(p, d, [L, M, X, E], |g| {
                let h = g.converse();
                let small = g.union(&h).size();
                small + h.union(&g).size() + g.union(&g).size()
            }),
        },
        "filter_vertices" => {
            let g = mk::M(d);
            g.filter_vertices(|v| {
                tick(&count);
                v != x
            })
            .order() as u64
        }
        // ---- algorithms
        "bfs" => on!(p, d, [L, M, X, E, WI, WU], |g| Bfs::new(&g, piter([x].into_iter(), cb)).count()),
        "bfs_dist" => on!(p, d, [L, M, X, E, WI, WU], |g| BfsDist::new(&g, [x].into_iter()).count()),
        "bfs_dist_distances" => {
            on!(p, d, [L, M, X, E, WI, WU], |g| BfsDist::new(&g, [x].into_iter()).distances().len())
        }
        "bfs_pred" => on!(p, d, [L, M, X, E, WI, WU], |g| BfsPred::new(&g, [x].into_iter()).count()),
        "bfs_pred_predecessors" => {
            on!(p, d, [L, M, X, E, WI, WU], |g| BfsPred::new(&g, [x].into_iter()).predecessors().pred.len())
        }
        "bfs_pred_shortest_path" => on!(p, d, [L, M, X, E, WI, WU], |g| BfsPred::new(&g, [x].into_iter())
            .shortest_path(|v| {
                tick(&count);
                v == y
            })
            .map_or(0, |w| w.len())),
        "bfs_pred_cycles" => on!(p, d, [L, M, X, E, WI, WU], |g| BfsPred::new(&g, [x].into_iter()).cycles().len()),
        "dfs" => on!(p, d, [L, M, X, E, WI, WU], |g| Dfs::new(&g, piter([x].into_iter(), cb)).count()),
        "dfs_dist" => on!(p, d, [L, M, X, E, WI, WU], |g| DfsDist::new(&g, [x].into_iter()).count()),
        "dfs_pred" => on!(p, d, [L, M, X, E, WI, WU], |g| DfsPred::new(&g, [x].into_iter()).count()),
        "dfs_pred_predecessors" => {
            on!(p, d, [L, M, X, E, WI, WU], |g| DfsPred::new(&g, [x].into_iter()).predecessors().pred.len())
        }
        "dijkstra" => on!(p, d, [WU], |g| Dijkstra::new(&g, piter([x].into_iter(), cb)).count()),
        "dijkstra_dist" => on!(p, d, [WU], |g| DijkstraDist::new(&g, [x].into_iter()).count()),
        "dijkstra_dist_distances" => on!(p, d, [WU], |g| DijkstraDist::new(&g, [x].into_iter()).distances().len()),
        "dijkstra_pred" => on!(p, d, [WU], |g| DijkstraPred::new(&g, [x].into_iter()).count()),
        "dijkstra_pred_predecessors" => {
            on!(p, d, [WU], |g| DijkstraPred::new(&g, [x].into_iter()).predecessors().pred.len())
        }
        "dijkstra_pred_shortest_path" => on!(p, d, [WU], |g| DijkstraPred::new(&g, [x].into_iter())
            .shortest_path(|v| {
                tick(&count);
                v == y
            })
            .map_or(0, |w| w.len())),
        "bellman_ford_moore" => on!(p, d, [WI], |g| BellmanFordMoore::new(&g, x).distances().map_or(0, <[isize]>::len)),
        "floyd_warshall" => on!(p, d, [WI], |g| {
            let mut fw = FloydWarshall::new(&g);
            let m = fw.distances();
            m.center().len() + m.periphery().count() + m.eccentricities().count() + m.is_connected() as usize
        }),
        "floyd_warshall_metrics" => on!(p, d, [WI], |g| {
            let mut fw = FloydWarshall::new(&g);
            let m = fw.distances();
            (m[(x, y)] != 0) as usize + (*m.diameter() != 0) as usize
        }),
        "tarjan" => on!(p, d, [L, M, X, E], |g| Tarjan::new(&g).components().len()),
        "johnson_75" => on!(p, d, [M], |g| Johnson75::new(&g).circuits().len()),
        "distance_matrix" => {
            let mut m = DistanceMatrix::<isize>::new(d.order(), isize::MAX);
            m[(0, 0)] = 0;
            m[(x, y)] = 1;
            (m[x] != 7) as u64 + m.center().len() as u64 + m.is_connected() as u64
        }
        "distance_matrix_huge" => {
            let m = DistanceMatrix::<usize>::new(1 << 32, usize::MAX);
            m.is_connected() as u64
        }
        "predecessor_tree_search" => on!(p, d, [L, X, E, WI, WU], |g| {
            let t = BfsPred::new(&g, [0].into_iter()).predecessors();
            t.search(x, y).map_or(0, |w| w.len())
        }),
        "predecessor_tree_search_by" => on!(p, d, [L, X, E, WI, WU], |g| {
            let t = DfsPred::new(&g, [0].into_iter()).predecessors();
            t.search_by(x, |&v, _| {
                tick(&count);
                v == y
            })
            .map_or(0, |w| w.len())
        }),
        "predecessor_tree_user_built" => {
            // a user-built tree: in-range cyclic entries plus one entry taken from the y class
            let n = d.order();
            let mut pred: Vec<Option<usize>> = (0..n).map(|i| Some((i + 1) % n)).collect();
            pred[0] = Some(y);
            let t = PredecessorTree::from(pred);
            let a = t.search(x.min(n - 1), n).map_or(0, |w| w.len()) as u64;
            let b = t.search_by(0, |_, w| w.is_none()).map_or(0, |w| w.len()) as u64;
            let mut t2 = PredecessorTree::new(n);
            t2[0] = Some(0);
            a + b + t2.search(0, 0).map_or(0, |w| w.len()) as u64 + t2.into_iter().count() as u64
        }
        "traversal_clone" => on!(p, d, [L, M, X, E, WI, WU], |g| {
            macro_rules! twice {
                ($make:expr) => {{
                    let mut a = $make;
                    let fresh = a.clone();
                    let first = a.next();
                    let mid = a.clone();
                    let _ = first;
                    a.count() + mid.count() + fresh.count()
                }};
            }
            twice!(Bfs::new(&g, [x].into_iter()))
                + twice!(BfsDist::new(&g, [x].into_iter()))
                + twice!(BfsPred::new(&g, [x].into_iter()))
                + twice!(Dfs::new(&g, [x].into_iter()))
                + twice!(DfsDist::new(&g, [x].into_iter()))
                + twice!(DfsPred::new(&g, [x].into_iter()))
                + BfsPred::new(&g, [x].into_iter()).clone().predecessors().pred.len()
                + BfsPred::new(&g, [x].into_iter()).clone().cycles().len()
                + BfsDist::new(&g, [x].into_iter()).clone().distances().len()
                + DfsPred::new(&g, [x].into_iter()).clone().predecessors().pred.len()
        }),
        "dijkstra_clone" => on!(p, d, [WU], |g| {
            macro_rules! twice {
                ($make:expr) => {{
                    let mut a = $make;
                    let fresh = a.clone();
                    let _ = a.next();
                    let mid = a.clone();
                    a.count() + mid.count() + fresh.count()
                }};
            }
            twice!(Dijkstra::new(&g, [x].into_iter()))
                + twice!(DijkstraDist::new(&g, [x].into_iter()))
                + twice!(DijkstraPred::new(&g, [x].into_iter()))
                + DijkstraPred::new(&g, [x].into_iter()).clone().predecessors().pred.len()
                + DijkstraDist::new(&g, [x].into_iter()).clone().distances().len()
        }),
        "advance_finish" => on!(p, d, [L, M, X, E, WI, WU], |g| {
            let k = advance_steps(p.y);
            let last = d.v.iter().next_back().copied().unwrap_or(0);
            macro_rules! adv {
                ($make:expr, |$it:ident| $fin:expr) => {{
                    let mut $it = $make;
                    for _ in 0..k {
                        if $it.next().is_none() {
                            break;
                        }
                    }
                    $fin
                }};
            }
            adv!(BfsDist::new(&g, [x].into_iter()), |it| it.distances().len() + it.distances().len() + it.count())
                + adv!(BfsPred::new(&g, [x].into_iter()), |it| it.predecessors().pred.len() + it.cycles().len())
                + adv!(BfsPred::new(&g, [x].into_iter()), |it| it.shortest_path(|v| v == last).map_or(0, |w| w.len())
                    + it.shortest_path(|v| v == x).map_or(0, |w| w.len())
                    + it.predecessors().pred.len())
                + adv!(BfsPred::new(&g, [x].into_iter()), |it| it.cycles().len() + it.shortest_path(|_| true).map_or(0, |w| w.len()))
                + adv!(DfsPred::new(&g, [x].into_iter()), |it| it.predecessors().pred.len() + it.predecessors().pred.len() + it.count())
                + adv!(DfsDist::new(&g, [x].into_iter()), |it| it.count())
        }),
        "dijkstra_advance_finish" => on!(p, d, [WU], |g| {
            let k = advance_steps(p.y);
            let last = d.v.iter().next_back().copied().unwrap_or(0);
            macro_rules! adv {
                ($make:expr, |$it:ident| $fin:expr) => {{
                    let mut $it = $make;
                    for _ in 0..k {
                        if $it.next().is_none() {
                            break;
                        }
                    }
                    $fin
                }};
            }
            adv!(DijkstraDist::new(&g, [x].into_iter()), |it| it.distances().len() + it.distances().len() + it.count())
                + adv!(DijkstraPred::new(&g, [x].into_iter()), |it| it.predecessors().pred.len() + it.count())
                + adv!(DijkstraPred::new(&g, [x].into_iter()), |it| it.shortest_path(|v| v == last).map_or(0, |w| w.len())
                    + it.shortest_path(|v| v == x).map_or(0, |w| w.len())
                    + it.predecessors().pred.len())
                + adv!(DijkstraPred::new(&g, [x, last].into_iter()), |it| it.shortest_path(|_| true).map_or(0, |w| w.len())
                    + it.shortest_path(|v| v == last).map_or(0, |w| w.len()))
        }),
        "evil_sources" => on!(p, d, [L, M, X, E, WI, WU], |g| {
            macro_rules! each_evil {
                ($T:ident) => {{
                    let a = catch_unwind(AssertUnwindSafe(|| $T::new(&g, SharedCursor::new(vec![x, y, x]).take(1)).take(64).count())).unwrap_or(0);
                    let b = catch_unwind(AssertUnwindSafe(|| $T::new(&g, SharedCursor::new(vec![x, x, y]).take(2)).take(64).count())).unwrap_or(0);
                    let c = catch_unwind(AssertUnwindSafe(|| $T::new(&g, LyingHint { inner: [x, y].into_iter(), claim: 0 }).take(64).count())).unwrap_or(0);
                    let e = catch_unwind(AssertUnwindSafe(|| $T::new(&g, LyingHint { inner: [x].into_iter(), claim: usize::MAX }).take(64).count())).unwrap_or(0);
                    let f = catch_unwind(AssertUnwindSafe(|| $T::new(&g, std::iter::repeat(x).take(3 * d.order() + 5)).take(64).count())).unwrap_or(0);
                    a + b + c + e + f
                }};
            }
            each_evil!(Bfs) + each_evil!(BfsDist) + each_evil!(BfsPred) + each_evil!(Dfs) + each_evil!(DfsDist) + each_evil!(DfsPred)
        }),
        "dijkstra_evil_sources" => on!(p, d, [WU], |g| {
            macro_rules! each_evil {
                ($T:ident) => {{
                    let a = catch_unwind(AssertUnwindSafe(|| $T::new(&g, SharedCursor::new(vec![x, y, x]).take(1)).take(64).count())).unwrap_or(0);
                    let b = catch_unwind(AssertUnwindSafe(|| $T::new(&g, SharedCursor::new(vec![x, x, y]).take(2)).take(64).count())).unwrap_or(0);
                    let c = catch_unwind(AssertUnwindSafe(|| $T::new(&g, LyingHint { inner: [x, y].into_iter(), claim: 0 }).take(64).count())).unwrap_or(0);
                    let e = catch_unwind(AssertUnwindSafe(|| $T::new(&g, LyingHint { inner: [x].into_iter(), claim: usize::MAX }).take(64).count())).unwrap_or(0);
                    let f = catch_unwind(AssertUnwindSafe(|| $T::new(&g, std::iter::repeat(x).take(3 * d.order() + 5)).take(64).count())).unwrap_or(0);
                    a + b + c + e + f
                }};
            }
            each_evil!(Dijkstra) + each_evil!(DijkstraDist) + each_evil!(DijkstraPred)
        }),
        "shared_callers" => {
            // The second caller is a thread from the seam (a scheduled task under the shuttle engine, a real
            // thread under Miri), started with `spawn` and joined through its handle. Not `scope`: shuttle
            // 0.9.3 wakes the task that opened a scope when the scope's last thread ends *wherever that task is
            // blocked*, so a first caller waiting inside graaf's own `scope` for its workers was released early
            // (use after free of graaf's buffers, SIGSEGV in a trial): a defect of the simulator's scope, not
            // of graaf.
            macro_rules! two_callers {
                ($shared:expr, $work:expr) => {{
                    let shared = std::sync::Arc::new($shared);
                    let work = $work;
                    let s2 = std::sync::Arc::clone(&shared);
                    #[cfg(graaf_verif)]
                    let h = graaf::verif_seam::spawn(move || work(&*s2, 1));
                    #[cfg(not(graaf_verif))]
                    let h = std::thread::spawn(move || work(&*s2, 1));
                    let a: usize = work(&*shared, 0);
                    a + h.join().unwrap_or(0)
                }};
            }
            let common = on!(p, d, [L, M, X, E, WI, WU], |g| {
                two_callers!(g.clone(), typed_work(&g, move |g, k: usize| -> usize {
                    let mut acc = g.order() + g.size() + g.arcs().count() + g.vertices().count();
                    acc += g.degree_sequence().sum::<usize>() + g.sinks().count() + g.sources().count();
                    acc += g.converse().size() + usize::from(g.clone() == *g);
                    acc += Bfs::new(g, [x].into_iter()).count() + DfsDist::new(g, [x].into_iter()).count();
                    acc += g.out_neighbors(x).count() + g.in_neighbors(x).count() + g.indegree(x) + g.outdegree(x);
                    acc + usize::from(g.has_arc(x, k)) + usize::from(g.is_sink(x))
                }))
            });
            let extra = match p.repr {
                L => two_callers!(mk::L(d), move |g: &AdjacencyList, k: usize| -> usize {
                    let h = g.complement();
                    let u = g.union(&h);
                    AdjacencyList::complete(g.order().max(1) + k).size()
                        + usize::from(u.is_semicomplete())
                        + usize::from(g.is_semicomplete())
                        + h.size()
                        + u.size()
                }) as u64,
                M => two_callers!(mk::M(d), move |g: &AdjacencyMap, k: usize| -> usize {
                    let h = g.converse();
                    g.union(&h).size()
                        + AdjacencyMap::random_tournament(g.order().max(1) + k, 7).size()
                        + AdjacencyMap::erdos_renyi(g.order().max(1) + k, 0.7, 7).size()
                        + g.out_neighbors(x).count()
                }) as u64,
                _ => 0,
            };
            common + extra
        }
        "std_traits" => on!(p, d, [L, M, X, E, WI, WU], |g| {
            use std::fmt::Write as _;
            use std::hash::{Hash, Hasher};
            let mut text = String::new();
            let _ = write!(text, "{g:?}");
            let mut h = g.converse();
            h.clone_from(&g);
            let mut s = std::collections::hash_map::DefaultHasher::new();
            h.hash(&mut s);
            let o = g.partial_cmp(&h).map_or(9, |o| o as i8 as i64 + 1) as u64;
            text.len() as u64 + (h == g) as u64 + (h < g) as u64 + (h >= g) as u64 + o + (s.finish() & 1) + (g.clone().max(h) == g) as u64
        }),
        "traversal_traits" => on!(p, d, [L, M, X, E, WI, WU], |g| {
            use std::fmt::Write as _;
            macro_rules! traits {
                ($make:expr) => {{
                    let mut a = $make;
                    let mut b = a.clone();
                    let mut text = String::new();
                    let _ = write!(text, "{a:?}");
                    let e0 = a == b;
                    let _ = a.next();
                    let e1 = a == b;
                    b.clone_from(&a);
                    let e2 = a == b;
                    let _ = write!(text, "{b:?}");
                    text.len() + e0 as usize + e1 as usize + e2 as usize + a.count() + b.count()
                }};
            }
            traits!(Bfs::new(&g, [x].into_iter()))
                + traits!(BfsDist::new(&g, [x].into_iter()))
                + traits!(BfsPred::new(&g, [x].into_iter()))
                + traits!(Dfs::new(&g, [x].into_iter()))
                + traits!(DfsDist::new(&g, [x].into_iter()))
                + traits!(DfsPred::new(&g, [x].into_iter()))
        }),
        "algo_object_traits" => {
            use std::fmt::Write as _;
            use std::hash::{Hash, Hasher};
            let mut text = String::new();
            let mut acc = 0u64;
            match p.repr {
                L | M => {
                    acc += on!(p, d, [L, M], |g| {
                        let mut t = Tarjan::new(&g);
                        let t0 = t.clone();
                        let n = t.components().len();
                        let _ = write!(text, "{t:?}{t0:?}");
                        n + (t == t0) as usize
                    });
                    if p.repr == M {
                        let g = mk::M(d);
                        let mut j = Johnson75::new(&g);
                        let j0 = j.clone();
                        let n = j.circuits().len();
                        let _ = write!(text, "{j:?}");
                        acc += (n + (j == j0) as usize) as u64;
                    }
                    // a predecessor tree and its trait surface
                    let mut t = PredecessorTree::new(d.order().max(1));
                    let _ = write!(text, "{t:?}");
                    let mut u = PredecessorTree::from(vec![Some(0); 3]);
                    u.clone_from(&t);
                    t[0] = Some(x);
                    let mut s = std::collections::hash_map::DefaultHasher::new();
                    t.hash(&mut s);
                    acc += (t == u) as u64 + (t.cmp(&u) as i8 + 1) as u64 + (s.finish() & 1) + u[y].is_some() as u64;
                    acc += t.into_iter().count() as u64;
                }
                WI => {
                    let g = mk::WI(d);
                    let mut fw = FloydWarshall::new(&g);
                    let fw0 = fw.clone();
                    let m = fw.distances().clone();
                    let _ = write!(text, "{fw:?}");
                    let mut m2 = DistanceMatrix::<isize>::new(1, 0);
                    m2.clone_from(&m);
                    let mut s = std::collections::hash_map::DefaultHasher::new();
                    m2.hash(&mut s);
                    acc += (fw == fw0) as u64 + (m == m2) as u64 + (m.cmp(&m2) as i8 + 1) as u64 + (s.finish() & 1);
                    acc += m2[..].len() as u64;
                    m2[..].fill(3);
                    acc += m2[0..1].len() as u64;
                    // ranges with caller-chosen bounds must panic, never read out of bounds
                    acc += m2[x.min(4)..y.min(5).max(x.min(4))].len() as u64;
                    m2[x] = 1;
                    let mut b = BellmanFordMoore::new(&g, x);
                    let b0 = b.clone();
                    acc += b.distances().map_or(0, <[isize]>::len) as u64 + (b == b0) as u64;
                    let _ = write!(text, "{b:?}");
                }
                _ => {
                    let g = mk::WU(d);
                    let mut a = DijkstraPred::new(&g, [x].into_iter());
                    let mut b = a.clone();
                    let _ = a.next();
                    b.clone_from(&a);
                    let _ = write!(text, "{a:?}{b:?}");
                    acc += (a.count() + b.count()) as u64;
                    let mut c = DijkstraDist::new(&g, [y].into_iter());
                    let c0 = c.clone();
                    acc += c.distances().len() as u64 + c0.count() as u64;
                }
            }
            acc + text.len() as u64
        }
        "iter_protocol" => on!(p, d, [L, M, X, E, WI, WU], |g| {
            macro_rules! poke {
                ($it:expr) => {{
                    let mut it = $it;
                    let (lo, hi) = it.size_hint();
                    let first = it.next().is_some() as usize;
                    let rest = it.by_ref().count();
                    // an exhausted iterator keeps answering (None or more items), never touches freed or foreign memory
                    let after = (0..3).filter(|_| it.next().is_some()).count();
                    let (lo2, _) = it.size_hint();
                    // and one that is dropped half-way
                    let mut half = $it;
                    let _ = half.next();
                    drop(half);
                    lo.min(1) + hi.map_or(0, |h| h.min(1)) + first + rest + after + lo2.min(1)
                }};
            }
            poke!(g.arcs())
                + poke!(g.vertices())
                + poke!(g.out_neighbors(x))
                + poke!(g.in_neighbors(x))
                + poke!(g.degree_sequence())
                + poke!(g.sinks())
                + poke!(Bfs::new(&g, [x].into_iter()))
                + poke!(BfsDist::new(&g, [x].into_iter()))
                + poke!(BfsPred::new(&g, [x].into_iter()))
                + poke!(Dfs::new(&g, [x].into_iter()))
                + poke!(DfsDist::new(&g, [x].into_iter()))
                + poke!(DfsPred::new(&g, [x].into_iter()))
        }),
        "seq" => {
            let xi = IDS.iter().position(|i| *i == p.x).unwrap() as u64;
            let yi = IDS.iter().position(|i| *i == p.y).unwrap() as u64;
            seq::run(p.repr, ((xi * 6 + yi) * 3 + u64::from(p.cb)) * 5 + u64::from(p.t))
        }
        "rand_algo" => {
            let xi = IDS.iter().position(|i| *i == p.x).unwrap() as u64;
            let yi = IDS.iter().position(|i| *i == p.y).unwrap() as u64;
            rnd::run(p.repr, ((xi * 6 + yi) * 3 + u64::from(p.cb)) * 5 + u64::from(p.t))
        }
        "rand_tree" => {
            let xi = IDS.iter().position(|i| *i == p.x).unwrap() as u64;
            let yi = IDS.iter().position(|i| *i == p.y).unwrap() as u64;
            rnd::run_tree(((xi * 6 + yi) * 3 + u64::from(p.cb)) * 5 + u64::from(p.t))
        }
        "prng" => {
            let mut r = Xoshiro256StarStar::new(42);
            let dflt = Xoshiro256StarStar::default();
            let mut s = (dflt.clone() == dflt) as u64 + (Ord::cmp(&r, &dflt) as i8 + 1) as u64 + format!("{r:?}").len() as u64;
            for _ in 0..16 {
                s ^= r.next().unwrap();
                s ^= r.next_f64().to_bits();
                s ^= r.next_bool() as u64;
            }
            s
        }
        other => panic!("unknown entry {other}"),
    }
}

#[derive(Debug, Clone, PartialEq, Eq)]
pub enum Outcome {
    Returned(u64),
    Panicked(String),
}

/// Run one program to completion, catching the documented panics.
pub fn run(p: &Prog) -> Outcome {
    let r = catch_unwind(AssertUnwindSafe(|| body(p)));
    set_cpus(0);
    match r {
        Ok(v) => Outcome::Returned(v),
        Err(e) => Outcome::Panicked(if let Some(s) = e.downcast_ref::<&str>() {
            (*s).to_string()
        } else if let Some(s) = e.downcast_ref::<String>() {
            s.clone()
        } else {
            "<panic>".to_string()
        }),
    }
}

pub fn _unused(_: BTreeSet<usize>) {}

// ------------------------------------------------------------------ judged cases (Miri lane of C15 / C17)

/// Small inputs for the eight threaded operations whose *results* are judged
/// against the model while Miri schedules the real `std` threads (preemption
/// at every memory access, weak-memory emulation of the `Relaxed` flag).
pub mod judge {
    use super::*;
    use vmodel::gen::{near_semicomplete, random_dg, random_dg_on, random_vertex_set};
    use vmodel::rng::Rng;

    #[derive(Clone, Debug)]
    pub struct Case {
        pub kind: &'static str,
        pub d: Dg,
        pub e: Dg,
        pub t: u8,
        pub seed: u64,
    }

    pub const KINDS: [&str; 8] = [
        "list_complement",
        "list_complete",
        "list_degree_sequence",
        "list_is_semicomplete",
        "list_union",
        "map_union",
        "map_random_tournament",
        "map_erdos_renyi",
    ];

    /// A fixed corpus: case `i` is a pure function of `i`. Cases 0..CASES are the small band (orders
    /// 2..=8, 1..=4 CPUs); cases CASES..CASES+CASES_LARGE the large band (orders 17 and 20 at 2..=4
    /// CPUs: several rows per worker), which only the thorough tier runs.
    pub fn case(i: usize) -> Case {
        let mut rng = Rng::new(0xC17_0000 + i as u64);
        let kind = KINDS[i % KINDS.len()];
        let (t, n) = if i < CASES {
            (1 + ((i / KINDS.len()) % 4) as u8, 2 + (i / (KINDS.len() * 4)) % 7)
        } else {
            let j = i - CASES;
            (2 + ((j / KINDS.len()) % 3) as u8, [17, 20][(j / (KINDS.len() * 3)) % 2])
        };
        let p = [150, 400, 700, 950][(i / 7) % 4];
        let d = if kind == "list_is_semicomplete" { near_semicomplete(&mut rng, n, true) } else { random_dg(&mut rng, n, p) };
        let m = rng.range(1, n + 1);
        let e = if kind == "map_union" {
            let vs = random_vertex_set(&mut rng, m, 14);
            random_dg_on(&mut rng, &vs, p)
        } else {
            random_dg(&mut rng, m, p)
        };
        Case { kind, d, e, t, seed: rng.next_u64() }
    }

    pub const CASES: usize = 8 * 4 * 7;
    pub const CASES_LARGE: usize = 8 * 3 * 2;

    fn obs<G: Order + Size + Vertices + Arcs>(g: &G) -> Result<Dg, String> {
        let v: Vec<usize> = g.vertices().collect();
        let a: Vec<(usize, usize)> = g.arcs().collect();
        if !v.windows(2).all(|w| w[0] < w[1]) || !a.windows(2).all(|w| w[0] < w[1]) {
            return Err(format!("listing not strictly ascending: V={v:?} A={a:?}"));
        }
        if g.order() != v.len() || g.size() != a.len() {
            return Err(format!("order()/size() disagree with the listings: {} {} vs {} {}", g.order(), g.size(), v.len(), a.len()));
        }
        let d = Dg::from_parts(v, a);
        if !d.is_valid() {
            return Err(format!("not a valid digraph: {d:?}"));
        }
        Ok(d)
    }

    fn same(got: Result<Dg, String>, want: &Dg) -> Result<(), String> {
        let got = got?;
        if &got == want {
            Ok(())
        } else {
            Err(format!("got V={:?} A={:?}, the definition says V={:?} A={:?}", got.v, got.a, want.v, want.a))
        }
    }

    /// Execute the case on real graaf types and judge the result.
    pub fn run(c: &Case) -> Result<(), String> {
        set_cpus(c.t);
        let r = match c.kind {
            "list_complement" => same(obs(&mk::L(&c.d).complement()), &c.d.complement()),
            "list_complete" => same(obs(&AdjacencyList::complete(c.d.order())), &Dg::complete(c.d.order())),
            "list_degree_sequence" => {
                let s: Vec<usize> = mk::L(&c.d).degree_sequence().collect();
                if s == c.d.degree_sequence() {
                    Ok(())
                } else {
                    Err(format!("degree sequence {s:?}, the definition says {:?}", c.d.degree_sequence()))
                }
            }
            "list_is_semicomplete" => {
                let b = mk::L(&c.d).is_semicomplete();
                if b == c.d.is_semicomplete() {
                    Ok(())
                } else {
                    Err(format!("is_semicomplete() = {b}, the definition says {}", !b))
                }
            }
            "list_union" => same(obs(&mk::L(&c.d).union(&mk::L(&c.e))), &c.d.union(&c.e)),
            "map_union" => same(obs(&mk::M(&c.d).union(&mk::M(&c.e))), &c.d.union(&c.e)),
            "map_random_tournament" => {
                let n = c.d.order();
                let (x, y) = (AdjacencyMap::random_tournament(n, c.seed), AdjacencyMap::random_tournament(n, c.seed));
                match obs(&x) {
                    Err(e) => Err(e),
                    Ok(d) if !d.is_tournament() || d.v != (0..n).collect() => Err(format!("not a tournament on 0..{n}: {:?}", d.a)),
                    Ok(_) if x != y => Err("two calls with equal arguments differ".into()),
                    Ok(_) => Ok(()),
                }
            }
            _ => {
                let n = c.d.order();
                let p = [0.0, 0.3, 0.5, 0.8, 1.0][(c.seed % 5) as usize];
                let (x, y) = (AdjacencyMap::erdos_renyi(n, p, c.seed), AdjacencyMap::erdos_renyi(n, p, c.seed));
                match obs(&x) {
                    Err(e) => Err(e),
                    Ok(d) if d.v != (0..n).collect() => Err(format!("vertex set {:?}", d.v)),
                    Ok(d) if p == 0.0 && !d.a.is_empty() => Err("p = 0 but arcs".into()),
                    Ok(d) if p == 1.0 && d != Dg::complete(n) => Err("p = 1 but not complete".into()),
                    Ok(_) if x != y => Err("two calls with equal arguments differ".into()),
                    Ok(_) => Ok(()),
                }
            }
        };
        set_cpus(0);
        r
    }
}

// ------------------------------------------------------------------ generated call sequences

/// Short *sequences* of public API calls (C13 quantifies over programs, not
/// single calls): start from a shape, apply 2–5 seeded steps — mutations with
/// ids from every argument class, whole-digraph operations that replace the
/// value, vertex filtering — and finish with a traversal / algorithm / query
/// whose arguments again come from every class. Each step runs under
/// `catch_unwind`, as a caller that handles the documented panics would; the
/// value stays in use afterwards. Program name: `seq/<repr>/<seed>`.
pub mod seq {
    use super::*;
    use vmodel::rng::Rng;

    #[derive(Clone)]
    enum G {
        L(AdjacencyList),
        M(AdjacencyMap),
        X(AdjacencyMatrix),
        E(EdgeList),
    }

    macro_rules! each {
        ($g:expr, $x:ident => $e:expr) => {
            match $g {
                G::L($x) => $e,
                G::M($x) => $e,
                G::X($x) => $e,
                G::E($x) => $e,
            }
        };
    }

    fn guard<T>(f: impl FnOnce() -> T) -> Option<T> {
        catch_unwind(AssertUnwindSafe(f)).ok()
    }

    fn pick_id(rng: &mut Rng, g: &G) -> usize {
        let (order, verts): (usize, Vec<usize>) = each!(g, x => (x.order(), x.vertices().take(64).collect()));
        match rng.below(11) {
            0 => order,
            1 => order + 1,
            2 => 1 << 40,
            3 => usize::MAX,
            // the largest id whose product with the order still fits a machine word, and its successor
            10 => usize::MAX / order.max(1) + rng.below(2),
            4 => *verts.last().unwrap_or(&0),
            _ => {
                if verts.is_empty() {
                    0
                } else {
                    verts[rng.below(verts.len())]
                }
            }
        }
    }

    pub const REPRS: [Repr; 4] = [L, M, X, E];

    /// Run sequence `seed` on representation `repr`; returns a summary value.
    pub fn run(repr: Repr, seed: u64) -> u64 {
        let mut rng = Rng::new(0x5E9_0000 ^ seed.wrapping_mul(0x9E37_79B9));
        let shapes: Vec<Shape> = SHAPES.iter().copied().filter(|s| s.contiguous() || repr == M).filter(|s| *s != Shape::MapFar || repr == M).collect();
        let shape = shapes[rng.below(shapes.len())];
        let d = shape.dg();
        let mut g = match repr {
            L => G::L(mk::L(d)),
            M => G::M(mk::M(d)),
            X => G::X(mk::X(d)),
            _ => G::E(mk::E(d)),
        };
        let mut acc = 0u64;
        let t = 1 + rng.below(4) as u8;
        set_cpus(t);
        for _ in 0..rng.range(2, 5) {
            let (x, y) = (pick_id(&mut rng, &g), pick_id(&mut rng, &g));
            match rng.below(9) {
                0 | 1 => {
                    let _ = guard(|| each!(&mut g, v => v.add_arc(x, y)));
                }
                2 => {
                    acc += guard(|| each!(&mut g, v => v.remove_arc(x, y))).map_or(0, u64::from);
                }
                3 => {
                    if let G::X(m) = &mut g {
                        let _ = guard(|| m.toggle(x, y));
                    }
                }
                4 => {
                    if let Some(n) = guard(|| each!(&g, v => wrap(v.complement()))) {
                        g = n;
                    }
                }
                5 => {
                    if let Some(n) = guard(|| each!(&g, v => wrap(v.converse()))) {
                        g = n;
                    }
                }
                6 => {
                    if let Some(n) = guard(|| each!(&g, v => wrap(v.union(&v.converse())))) {
                        g = n;
                    }
                }
                7 => {
                    if let G::M(m) = &g {
                        if let Some(n) = guard(|| m.filter_vertices(|v| v != x)) {
                            if n.order() > 0 {
                                g = G::M(n);
                            }
                        }
                    }
                }
                _ => {
                    // conversion round trip through another representation (panics for non-contiguous maps)
                    if let Some(n) = guard(|| match &g {
                        G::L(v) => G::X(AdjacencyMatrix::from(v.clone())),
                        G::M(v) => G::L(AdjacencyList::from(v.clone())),
                        G::X(v) => G::E(EdgeList::from(v.clone())),
                        G::E(v) => G::M(AdjacencyMap::from(v.clone())),
                    }) {
                        g = n;
                    }
                }
            }
        }
        // terminal: a query / traversal / algorithm with ids of every class
        let (x, y) = (pick_id(&mut rng, &g), pick_id(&mut rng, &g));
        let k = rng.below(16);
        acc += guard(|| each!(&g, v => match k {
            0 => Bfs::new(v, [x].into_iter()).count(),
            1 => BfsDist::new(v, [x, y].into_iter()).distances().len(),
            2 => BfsPred::new(v, [x].into_iter()).shortest_path(|w| w == y).map_or(0, |p| p.len()),
            3 => BfsPred::new(v, [x].into_iter()).cycles().len(),
            4 => Dfs::new(v, [x, y].into_iter()).count(),
            5 => DfsDist::new(v, [x].into_iter()).count(),
            6 => DfsPred::new(v, [x].into_iter()).predecessors().search(y, x).map_or(0, |p| p.len()),
            7 => Tarjan::new(v).components().len(),
            8 => v.out_neighbors(x).count() + v.in_neighbors(y).count(),
            9 => v.indegree(x) + v.outdegree(y) + v.degree(x),
            10 => v.has_walk(&[x, y, x]) as usize + v.has_edge(x, y) as usize,
            11 => v.is_sink(x) as usize + v.is_source(y) as usize + v.is_isolated(x) as usize + v.is_pendant(y) as usize,
            12 => v.degree_sequence().sum::<usize>() + v.semidegree_sequence().count(),
            13 => v.is_tournament() as usize + v.is_semicomplete() as usize + v.is_complete() as usize + v.is_regular() as usize,
            14 => v.sinks().count() + v.sources().count() + v.max_degree() + v.min_indegree(),
            _ => v.arcs().count() + v.vertices().count() + v.size(),
        }))
        .unwrap_or(0) as u64;
        if let G::M(m) = &g {
            if k % 4 == 0 {
                acc += guard(|| Johnson75::new(m).circuits().len()).unwrap_or(0) as u64;
            }
        }
        set_cpus(0);
        acc
    }

    fn wrap<T: Into<G>>(t: T) -> G {
        t.into()
    }

    impl From<AdjacencyList> for G {
        fn from(v: AdjacencyList) -> Self {
            G::L(v)
        }
    }
    impl From<AdjacencyMap> for G {
        fn from(v: AdjacencyMap) -> Self {
            G::M(v)
        }
    }
    impl From<AdjacencyMatrix> for G {
        fn from(v: AdjacencyMatrix) -> Self {
            G::X(v)
        }
    }
    impl From<EdgeList> for G {
        fn from(v: EdgeList) -> Self {
            G::E(v)
        }
    }
}

// ------------------------------------------------------------------ generated structures under the algorithms

/// The fixed shapes above are small and regular. The algorithms' unchecked indexing depends on
/// *structure* - the number of strong components, the length of predecessor chains, frontier width,
/// unreachable vertices, zero and negative weights - so this family draws a structure per seed and runs
/// every traversal and algorithm the representation supports, from in-range sources.
pub mod rnd {
    use super::*;
    use vmodel::gen::{random_dg, random_tournament};
    use vmodel::rng::Rng;

    pub fn structure(rng: &mut Rng) -> Dg {
        let n = match rng.below(8) {
            0 => rng.range(25, 70),
            1 => rng.range(1, 3),
            _ => rng.range(3, 24),
        };
        match rng.below(10) {
            0 => {
                let p = rng.range(40, 300);
                random_dg(rng, n.min(24), p)
            }
            1 => {
                let p = rng.range(500, 1000);
                random_dg(rng, n.min(12), p)
            }
            2 => {
                // acyclic: arcs only from lower to higher ids, plus one long chain
                let mut d = Dg::empty(n);
                let p = rng.range(30, 400);
                for u in 0..n {
                    for w in (u + 1)..n {
                        if w == u + 1 && rng.chance(3, 4) || rng.below(1000) < p && n <= 24 {
                            let _ = d.a.insert((u, w));
                        }
                    }
                }
                d
            }
            3 => {
                // k directed cycles (strong components of drawn sizes) joined by forward or backward bridges
                let mut d = Dg::empty(n);
                let mut start = 0;
                let mut heads = Vec::new();
                while start < n {
                    let len = rng.range(1, (n - start).min(9));
                    for i in 0..len {
                        if len > 1 {
                            let _ = d.a.insert((start + i, start + (i + 1) % len));
                        }
                    }
                    heads.push(start);
                    start += len;
                }
                for w in heads.windows(2) {
                    if rng.chance(3, 4) {
                        let (a, b) = if rng.chance(1, 2) { (w[0], w[1]) } else { (w[1], w[0]) };
                        let _ = d.a.insert((a, b));
                    }
                }
                d
            }
            4 => match rng.below(4) {
                0 => Dg::path(n),
                1 => Dg::cycle(n.max(2)),
                2 => Dg::circuit(n.max(2)),
                _ => Dg::path(n).converse(),
            },
            5 => match rng.below(3) {
                0 => Dg::star(n.max(2)),
                1 => Dg::wheel(n.clamp(4, 24)),
                _ => {
                    // every vertex points at the last one
                    let mut d = Dg::empty(n);
                    for u in 0..n.saturating_sub(1) {
                        let _ = d.a.insert((u, n - 1));
                    }
                    d
                }
            },
            6 => {
                // the second half cannot be reached from the first, and vertex n-1 is isolated
                let mut d = Dg::empty(n);
                let h = n / 2;
                for u in 0..h {
                    for w in 0..h {
                        if u != w && rng.chance(1, 3) {
                            let _ = d.a.insert((u, w));
                        }
                    }
                }
                for u in h..n.saturating_sub(1) {
                    for w in h..n.saturating_sub(1) {
                        if u != w && rng.chance(1, 3) {
                            let _ = d.a.insert((u, w));
                        }
                    }
                }
                d
            }
            7 => random_tournament(rng, n.min(10)),
            8 => {
                // layers: every vertex of a layer points at every vertex of the next (wide frontiers)
                let n = n.min(24);
                let mut d = Dg::empty(n);
                let w = rng.range(1, 6);
                for u in 0..n {
                    for v in 0..n {
                        if v / w == u / w + 1 {
                            let _ = d.a.insert((u, v));
                        }
                    }
                }
                if rng.chance(1, 2) && n > 1 {
                    let _ = d.a.insert((n - 1, 0));
                }
                d
            }
            _ => Dg::empty(n),
        }
    }

    fn sources(rng: &mut Rng, n: usize) -> Vec<usize> {
        let k = match rng.below(6) {
            0 => 0,
            1 | 2 | 3 => 1,
            4 => 2,
            _ => n.min(5),
        };
        (0..k).map(|_| if rng.chance(1, 5) { n - 1 } else { rng.below(n) }).collect()
    }

    macro_rules! unweighted_terminal {
        ($g:expr, $rng:expr, $n:expr) => {{
            let g = $g;
            let n = $n;
            let mut acc = 0usize;
            for _ in 0..3 {
                let src = sources($rng, n);
                let (x, y) = ($rng.below(n), $rng.below(n));
                acc += match $rng.below(12) {
                    0 => Bfs::new(g, src.into_iter()).count(),
                    1 => BfsDist::new(g, src.into_iter()).distances().len(),
                    2 => {
                        // finishing methods on an iterator that was already advanced
                        let mut it = BfsPred::new(g, src.into_iter());
                        for _ in 0..$rng.below(4) {
                            let _ = it.next();
                        }
                        it.shortest_path(|w| w == y).map_or(0, |p| p.len()) + it.shortest_path(|w| w == x).map_or(0, |p| p.len())
                    }
                    3 => {
                        let mut it = BfsPred::new(g, src.into_iter());
                        for _ in 0..$rng.below(4) {
                            let _ = it.next();
                        }
                        it.cycles().len()
                    }
                    4 => {
                        let mut it = BfsPred::new(g, src.into_iter());
                        for _ in 0..$rng.below(3) {
                            let _ = it.next();
                        }
                        let t = it.predecessors();
                        t.search(x, y).map_or(0, |p| p.len()) + t.search_by(x, |&v, _| v == y).map_or(0, |p| p.len())
                    }
                    5 => Dfs::new(g, src.into_iter()).count(),
                    6 => DfsDist::new(g, src.into_iter()).map(|(_, d)| d).sum::<usize>(),
                    7 => {
                        let t = DfsPred::new(g, src.into_iter()).predecessors();
                        t.search(y, x).map_or(0, |p| p.len())
                    }
                    8 => BfsDist::new(g, src.into_iter()).map(|(_, d)| d).sum::<usize>(),
                    9 => DfsPred::new(g, src.into_iter()).count() + BfsPred::new(g, [x, y].into_iter()).count(),
                    10 => g.has_walk(&[x, y, x]) as usize + g.in_neighbors(x).count() + g.degree_sequence().sum::<usize>(),
                    _ => g.sinks().count() + g.sources().count() + g.max_degree() + g.min_indegree(),
                };
            }
            acc
        }};
    }

    /// A user-built predecessor tree drawn from `seed`, searched a few times.
    pub fn run_tree(seed: u64) -> u64 {
        let mut rng = Rng::new(0x7EE_0000 ^ seed.wrapping_mul(0x9E37_79B9));
        let n = match rng.below(6) {
            0 => rng.range(1, 3),
            1 => rng.range(17, 40),
            _ => rng.range(4, 16),
        };
        let mut pred: Vec<Option<usize>> = match rng.below(7) {
            // one cycle through every vertex, in id order or along a random permutation
            0 => (0..n).map(|i| Some((i + 1) % n)).collect(),
            1 => {
                let mut perm: Vec<usize> = (0..n).collect();
                rng.shuffle(&mut perm);
                let mut p = vec![None; n];
                for i in 0..n {
                    p[perm[i]] = Some(perm[(i + 1) % n]);
                }
                p
            }
            // a cycle on the first k vertices, the others hang off it in a chain (rho shape)
            2 => {
                let k = rng.range(1, n);
                (0..n).map(|i| Some(if i < k { (i + 1) % k } else { i - 1 })).collect()
            }
            // a chain down to a root
            3 => (0..n).map(|i| i.checked_sub(1)).collect(),
            // every vertex its own predecessor
            4 => (0..n).map(Some).collect(),
            // any functional graph with some roots
            _ => (0..n).map(|_| if rng.chance(1, 5) { None } else { Some(rng.below(n)) }).collect(),
        };
        if rng.chance(1, 8) {
            // one entry outside the tree (search may panic: caught by the caller)
            let i = rng.below(n);
            pred[i] = Some(*rng.pick(&[n, n + 1, 1 << 40, usize::MAX]));
        }
        let t = PredecessorTree::from(pred);
        let mut acc = 0usize;
        for _ in 0..4 {
            let s = rng.below(n);
            let r = rng.below(n);
            let target = *rng.pick(&[r, n, usize::MAX, s]);
            acc += match rng.below(4) {
                0 => t.search(s, target).map_or(0, |w| w.len()),
                1 => t.search_by(s, |_, _| false).map_or(0, |w| w.len()),
                2 => t.search_by(s, |_, w| w.is_none()).map_or(0, |w| w.len()),
                _ => t.search_by(s, |&v, _| v == target).map_or(0, |w| w.len()),
            };
        }
        acc as u64 + t.into_iter().count() as u64
    }

    /// Run structure `seed` on representation `repr`; returns a summary value.
    pub fn run(repr: Repr, seed: u64) -> u64 {
        let mut rng = Rng::new(0xA190_0000 ^ seed.wrapping_mul(0x9E37_79B9));
        let d = structure(&mut rng);
        let n = d.order();
        let small_cyclic = n <= 9 && d.size() <= 20;
        let acc = match repr {
            L => {
                let g = AdjacencyList::from(d.rows());
                unweighted_terminal!(&g, &mut rng, n) + Tarjan::new(&g).components().len()
            }
            M => {
                let mut g = AdjacencyMap::empty(n);
                for &(u, v) in &d.a {
                    g.add_arc(u, v);
                }
                let j = if small_cyclic { Johnson75::new(&g).circuits().len() } else { 0 };
                unweighted_terminal!(&g, &mut rng, n) + Tarjan::new(&g).components().len() + j
            }
            X => {
                let mut g = AdjacencyMatrix::empty(n);
                for &(u, v) in &d.a {
                    g.add_arc(u, v);
                }
                unweighted_terminal!(&g, &mut rng, n) + Tarjan::new(&g).components().len()
            }
            E => {
                let mut g = EdgeList::empty(n);
                for &(u, v) in &d.a {
                    g.add_arc(u, v);
                }
                unweighted_terminal!(&g, &mut rng, n) + Tarjan::new(&g).components().len()
            }
            WI => {
                // weights in -2..=9: some seeds have negative arcs without, some with a negative circuit
                let lo = if rng.chance(1, 2) { 0 } else { 2 + rng.below(2) };
                let mut g = AdjacencyListWeighted::<isize>::empty(n);
                for &(u, v) in &d.a {
                    g.add_arc_weighted(u, v, rng.below(10 + lo) as isize - lo as isize);
                }
                let x = rng.below(n);
                let mut acc = unweighted_terminal!(&g, &mut rng, n);
                acc += BellmanFordMoore::new(&g, x).distances().map_or(0, <[isize]>::len);
                if lo == 0 && n <= 24 {
                    let mut fw = FloydWarshall::new(&g);
                    let m = fw.distances();
                    acc += m.center().len() + m.periphery().count() + m.eccentricities().count() + m.is_connected() as usize + (*m.diameter() != 0) as usize;
                }
                acc
            }
            WU => {
                let mut g = AdjacencyListWeighted::<usize>::empty(n);
                for &(u, v) in &d.a {
                    g.add_arc_weighted(u, v, rng.below(9));
                }
                let mut acc = unweighted_terminal!(&g, &mut rng, n);
                for _ in 0..2 {
                    let src = sources(&mut rng, n);
                    let y = rng.below(n);
                    acc += match rng.below(5) {
                        0 => Dijkstra::new(&g, src.into_iter()).count(),
                        1 => DijkstraDist::new(&g, src.into_iter()).distances().len(),
                        2 => {
                            let mut it = DijkstraPred::new(&g, src.into_iter());
                            for _ in 0..rng.below(4) {
                                let _ = it.next();
                            }
                            it.shortest_path(|v| v == y).map_or(0, |w| w.len()) + it.shortest_path(|_| true).map_or(0, |w| w.len())
                        }
                        3 => {
                            let mut it = DijkstraPred::new(&g, src.into_iter());
                            for _ in 0..rng.below(4) {
                                let _ = it.next();
                            }
                            it.predecessors().search(y, 0).map_or(0, |w| w.len())
                        }
                        _ => DijkstraDist::new(&g, src.into_iter()).map(|(_, d)| d).sum::<usize>() + DijkstraPred::new(&g, [y].into_iter()).count(),
                    };
                }
                acc
            }
        };
        acc as u64
    }
}
