"""C13 lane U: the program catalogue (sim/vprog) under Miri, sharded over worker
processes. A Miri diagnostic ends the process; the driver attributes it to the
program in flight (last BEGIN without END), records it, and restarts the shard
behind that program."""
import hashlib
import json
import os
import re
import subprocess
import time

import driver as D

MIRI_BASE_FLAGS = "-Zmiri-permissive-provenance"


def miri_env(seed, extra_flags=""):
    env = D.base_env()
    env["RUSTFLAGS"] = "--cfg graaf_verif"
    env["MIRIFLAGS"] = "%s -Zmiri-seed=%d %s" % (MIRI_BASE_FLAGS, seed, extra_flags)
    return env


def miri_cmd(ws, args):
    return ["cargo", "+nightly", "miri", "run", "--offline", "-q", "-p", "simmem", "--target-dir",
            os.path.join(ws, "target-miri"), "--"] + args


def build(ws):
    """Build simmem natively (for the catalogue listing) and for Miri (and the Miri sysroot on first
    use); return the catalogue listing."""
    t0 = time.time()
    env = D.base_env()
    env["RUSTFLAGS"] = "--cfg graaf_verif"
    p = subprocess.run(["cargo", "build", "--release", "--offline", "-p", "simmem", "--target-dir",
                        os.path.join(ws, "target-mem")], cwd=ws, env=env, stdout=subprocess.PIPE,
                       stderr=subprocess.STDOUT, text=True)
    if p.returncode != 0:
        D.log(p.stdout[-6000:])
        D.log("HARNESS-ERROR native build of simmem failed")
        raise SystemExit(2)
    p = subprocess.run([os.path.join(ws, "target-mem", "release", "simmem"), "list"], env=env,
                       stdout=subprocess.PIPE, stderr=subprocess.PIPE, text=True)
    listing = p.stdout
    # Miri build + smoke run of one program
    p = subprocess.run(miri_cmd(ws, ["run", "0:prng/L/trivial/in0/in0/cb0/t0"]), cwd=ws, env=miri_env(0),
                       stdout=subprocess.PIPE, stderr=subprocess.PIPE, text=True)
    if p.returncode != 0 or "DONE" not in p.stdout:
        D.log(p.stderr[-6000:])
        D.log("HARNESS-ERROR building/running simmem under Miri failed")
        raise SystemExit(2)
    names = []
    for line in listing.splitlines():
        parts = line.split(" ", 1)
        if len(parts) == 2 and parts[0].isdigit():
            names.append(parts[1])
    D.log("built simmem for Miri in %.1fs; catalogue has %d programs" % (time.time() - t0, len(names)))
    return names


DIAG = re.compile(r"^error: (.*)$", re.M)
LOC = re.compile(r"^\s+--> (\S+?):(\d+):(\d+)", re.M)


def parse_diag(stderr):
    """Kind, message and graaf source location of a Miri diagnostic."""
    m = DIAG.search(stderr)
    msg = m.group(1).strip() if m else "(no diagnostic found)"
    kind = "miri_error"
    low = msg.lower()
    if "undefined behavior" in low:
        kind = "undefined_behavior"
        if "data race" in low:
            kind = "data_race"
    elif "memory leaked" in low or "leaked" in low:
        kind = "leak"
    elif "deadlock" in low:
        kind = "deadlock"
    elif "abnormal termination" in low or "abort" in low:
        kind = "abort"
    elif "unsupported operation" in low:
        kind = "unsupported"
    loc = None
    for fm in LOC.finditer(stderr):
        if "/src/" in fm.group(1) and ("/repo/" in fm.group(1) or "graaf" in fm.group(1)) and "vprog" not in fm.group(1):
            loc = "%s:%s" % (fm.group(1), fm.group(2))
            break
    return kind, msg, loc


FRAME = re.compile(r"^\s*\d+: (<?graaf::.*)$")


def leak_frames(stderr):
    """Miri reports leaks at exit; attribute each leaked allocation to the first frame of its
    allocation backtrace whose function is a graaf item."""
    out = []
    for b in stderr.split("error: memory leaked")[1:]:
        where = "(no graaf frame)"
        for ln in b.splitlines():
            m = FRAME.match(ln)
            if m:
                where = re.sub(r"::\{closure#\d+\}", "", m.group(1).strip())
                break
        out.append(where[:200])
    return out


class Shard:
    def __init__(self, k, ws, names, indices, seed, flags, workdir, mode="run"):
        self.k, self.ws, self.seed, self.flags, self.workdir = k, ws, seed, flags, workdir
        self.names = names
        self.mode = mode
        self.mismatches = []  # (index, text) of judged cases whose result differs from the model
        self.todo = list(indices)
        self.proc = None
        self.done = []      # (index, "returned"|"panicked")
        self.failures = []  # dict
        self.n_starts = 0

    def start(self):
        if not self.todo:
            return False
        self.n_starts += 1
        # contiguous arithmetic progressions are passed as a range, anything else by name
        self.out = open(os.path.join(self.workdir, "mem%02d.%d.out" % (self.k, self.n_starts)), "w+")
        self.err = open(os.path.join(self.workdir, "mem%02d.%d.err" % (self.k, self.n_starts)), "w+")
        if self.mode == "judge":
            args = ["judge"] + [str(i) for i in self.todo]
        else:
            args = ["run"] + ["%d:%s" % (i, self.names[i]) for i in self.todo]
        self.proc = subprocess.Popen(miri_cmd(self.ws, args), cwd=self.ws, env=miri_env(self.seed, self.flags),
                                     stdout=self.out, stderr=self.err)
        return True

    def finish(self, names):
        """Called when the process ended. Returns True when the shard has more to do."""
        rc = self.proc.returncode
        self.out.seek(0)
        self.err.seek(0)
        out, err = self.out.read(), self.err.read()
        self.out.close()
        self.err.close()
        in_flight = None
        for line in out.splitlines():
            if line.startswith("BEGIN "):
                in_flight = int(line.split()[1])
            elif line.startswith("END "):
                parts = line.split()
                self.done.append((int(parts[1]), parts[2]))
                if parts[2] == "MISMATCH":
                    self.mismatches.append((int(parts[1]), line.split(" ", 3)[3] if len(parts) > 3 else ""))
                in_flight = None
        finished = {i for i, _ in self.done}
        if rc == 0 and "DONE" in out:
            self.todo = []
            return False
        kind, msg, loc = parse_diag(err)
        if in_flight is None:
            # diagnostic outside any program (e.g. a leak reported at exit): attribute by backtrace text
            self.failures.append({"index": None, "name": None, "kind": kind, "message": msg, "location": loc,
                                  "stderr": err[-4000:], "rc": rc, "leaks": leak_frames(err),
                                  "programs": [self.names[i] for i, _ in self.done[-len(self.done):]][-2000:]})
            self.todo = [i for i in self.todo if i not in finished]
            if kind == "leak":
                # everything ran; the leak report comes at exit
                self.todo = []
            return bool(self.todo) and self.n_starts < 400
        self.failures.append({"index": in_flight, "name": names[in_flight], "kind": kind, "message": msg,
                              "location": loc, "stderr": err[-4000:], "rc": rc})
        self.todo = [i for i in self.todo if i not in finished and i != in_flight]
        return bool(self.todo)


def run_catalogue(ws, names, indices, seed, flags, workdir, njobs, mode="run", mismatches=None):
    os.makedirs(workdir, exist_ok=True)
    shards = [Shard(k, ws, names, indices[k::njobs], seed, flags, workdir, mode) for k in range(njobs)]
    running = []
    for s in shards:
        if s.start():
            running.append(s)
    while running:
        time.sleep(0.2)
        for s in list(running):
            if s.proc.poll() is not None:
                running.remove(s)
                if s.finish(names) and s.start():
                    running.append(s)
    done, failures = [], []
    for s in shards:
        done.extend(s.done)
        failures.extend(s.failures)
        if mismatches is not None:
            mismatches.extend(s.mismatches)
    return done, failures


def entry_of(name):
    # name = entry/repr/shape/x/y/cbN/tN
    parts = name.split("/")
    reprs = {"L": "AdjacencyList", "M": "AdjacencyMap", "X": "AdjacencyMatrix", "E": "EdgeList",
             "WI": "AdjacencyListWeighted<isize>", "WU": "AdjacencyListWeighted<usize>"}
    entry, rep, shape, x, y, cb, t = parts
    if entry == "seq":
        return "%s::seq" % reprs[rep], "call_sequence"
    shape_c = shape if shape.startswith("map") else "contiguous"
    inr = ("in0", "inlast")
    arg = "in_range" if (x in inr and y in inr) else "x=%s,y=%s" % (x, y)
    if cb != "cb0":
        arg += ",callback_panic"
    return "%s::%s" % (reprs[rep], entry), "%s,%s" % (shape_c, arg)


# ----------------------------------------------------------------------------- the C13 check

# families whose (x, y, cb, t) fields only encode a generator seed
GENERATED = ("seq", "rand_algo")


def select_programs(names, tier, seed):
    """quick: every in-range program plus a seed-rotated 1/7 slice of the programs with bad arguments or
    panicking callbacks (always one program per (entry point, representation)); thorough: the whole
    catalogue."""
    if tier == "thorough":
        return list(range(len(names)))
    chosen = set()
    seen = set()
    for i, n in enumerate(names):
        parts = n.split("/")
        key = (parts[0], parts[1])
        if key not in seen:
            seen.add(key)
            chosen.add(i)
    # every program whose arguments are all in range and whose callbacks do not panic (that is where an
    # unchecked fast path hides: nothing is there to be rejected), at 0 / 2 simulated CPUs; every conversion
    for i, n in enumerate(names):
        parts = n.split("/")
        if parts[0] in GENERATED + ("rand_tree",):
            continue
        if parts[0].startswith("from_") or (parts[3] in ("in0", "inlast") and parts[4] in ("in0", "inlast")
                                            and parts[5] == "cb0" and parts[6] in ("t0", "t2")):
            chosen.add(i)
        # the y field of these is a step count, not a vertex: every count from an in-range source
        if parts[0].endswith("advance_finish") and parts[3] in ("in0", "inlast"):
            chosen.add(i)
        # adversarial iterators: the y field is the id the iterator smuggles in behind an in-range x
        if parts[0].endswith("evil_sources") and parts[3] in ("in0", "inlast"):
            chosen.add(i)
    stride = 7
    off = seed % stride
    chosen.update(i for i in range(off, len(names), stride) if names[i].split("/")[0] not in GENERATED + ("rand_tree",))
    # generated call sequences and generated structures are the slowest programs under Miri: a rotating
    # 1/20 of each in quick
    # user-built predecessor trees are tiny: all of them
    chosen.update(i for i, n in enumerate(names) if n.startswith("rand_tree/"))
    for fam in GENERATED:
        gen = [i for i, n in enumerate(names) if n.startswith(fam + "/")]
        chosen.update(gen[seed % 20::20])
    return sorted(chosen)


def threaded_programs(names):
    return [i for i, n in enumerate(names) if n.split("/")[6] != "t0" and n.split("/")[0] not in GENERATED + ("rand_tree",)]


def write_replay(pid, seed, f, flags):
    os.makedirs(D.REPLAYS, exist_ok=True)
    h = hashlib.sha1((f["name"] or f["message"]).encode()).hexdigest()[:10]
    path = os.path.join(D.REPLAYS, "%s-mem-%s-s%d.json" % (pid, h, f["miri_seed"]))
    entry, cls = entry_of(f["name"]) if f["name"] else ("?", "?")
    rf = {"property": pid, "engine": "simmem", "program": f["name"], "miri_seed": f["miri_seed"], "miri_flags": flags,
          "violation": {"class": f["kind"], "op": entry, "signature": "%s %s %s" % (f["kind"], entry, cls),
                        "detail": f["message"], "location": f["location"]},
          "minimised": True,
          "note": "a catalogue program is one entry point on one small digraph with one argument class: already minimal"}
    json.dump(rf, open(path, "w"), indent=1)
    return path, rf["violation"]["signature"]


def replay_mem(path, rf):
    """Re-run one program under Miri with the recorded seed and flags. Returns (rc, text)."""
    ws = D.workspace()
    names = build(ws)
    name = rf["program"]
    if name not in names:
        D.log("HARNESS-ERROR program %s is not in the catalogue" % name)
        return 2
    p = subprocess.run(miri_cmd(ws, ["run", "0:" + name]), cwd=ws, env=miri_env(rf["miri_seed"], rf.get("miri_flags", "")),
                       stdout=subprocess.PIPE, stderr=subprocess.PIPE, text=True)
    if p.returncode == 0 and "DONE" in p.stdout:
        D.log("NOT-REPRODUCED property=%s program=%s" % (rf["property"], name))
        return 0
    kind, msg, loc = parse_diag(p.stderr)
    D.log("REPLAYED class=%s program=%s location=%s detail=%s" % (kind, name, loc, msg))
    if kind == rf["violation"]["class"]:
        D.log("REPRODUCED property=%s signature=\"%s\"" % (rf["property"], rf["violation"]["signature"]))
        D.log("VIOLATION property=%s replay=%s" % (rf["property"], path))
        return 1
    D.log("HARNESS-ERROR replay produced a different diagnostic class (%s)" % kind)
    return 2


def run_pool(ws, names, jobs, njobs, mode="run"):
    """Run many (indices, seed, flags, workdir) jobs with at most njobs Miri processes at a time.
    Returns a list of (job, done, failures, mismatches)."""
    shards = []
    for k, j in enumerate(jobs):
        os.makedirs(j["workdir"], exist_ok=True)
        shards.append((j, Shard(k, ws, names, j["indices"], j["seed"], j["flags"], j["workdir"], mode)))
    pending = list(shards)
    running = []
    deadline = time.time() + float(os.environ.get("VERIF_MIRI_TIMEOUT", "3600"))
    while pending or running:
        if time.time() > deadline:
            for _, s in running:
                if s.proc.poll() is None:
                    s.proc.kill()
            D.log("HARNESS-ERROR the Miri batch did not finish within its wall-clock limit")
            raise SystemExit(2)
        while pending and len(running) < njobs:
            j, s = pending.pop(0)
            if s.start():
                running.append((j, s))
        time.sleep(0.1)
        for j, s in list(running):
            if s.proc.poll() is not None:
                running.remove((j, s))
                if s.finish(names) and s.start():
                    running.append((j, s))
    return [(j, s.done, s.failures, s.mismatches) for j, s in shards]


# ----------------------------------------------------------------------------- judged cases (C15 / C17)

JUDGE_KINDS = ["list_complement", "list_complete", "list_degree_sequence", "list_is_semicomplete", "list_union",
               "map_union", "map_random_tournament", "map_erdos_renyi"]
JUDGE_CASES = 8 * 4 * 7
JUDGE_OPS = {"list_complement": "AdjacencyList::complement", "list_complete": "AdjacencyList::complete",
             "list_degree_sequence": "AdjacencyList::degree_sequence", "list_is_semicomplete": "AdjacencyList::is_semicomplete",
             "list_union": "AdjacencyList::union", "map_union": "AdjacencyMap::union",
             "map_random_tournament": "AdjacencyMap::random_tournament", "map_erdos_renyi": "AdjacencyMap::erdos_renyi"}


JUDGE_CASES_LARGE = 8 * 3 * 2


def judge_name(i):
    if i < JUDGE_CASES:
        return "judge/%s/n%d/t%d" % (JUDGE_KINDS[i % 8], 2 + (i // 32) % 7, 1 + (i // 8) % 4)
    j = i - JUDGE_CASES
    return "judge/%s/n%d/t%d" % (JUDGE_KINDS[i % 8], [17, 20][(j // 24) % 2], 2 + (j // 8) % 3)


def judge_lane(pid, tier, seed, workdir, njobs):
    """The threaded operations on small inputs, real std threads scheduled by Miri (preemption at every
    memory access, weak-memory emulation), results judged against the model. Returns (stats, violations)."""
    ws = D.workspace()
    build(ws)
    kinds = range(8) if pid == "C17" else (6, 7)
    # thorough adds the large band (orders 17 and 20 at 2..4 CPUs: several rows per worker; first 4 seeds only)
    ncases = JUDGE_CASES + (JUDGE_CASES_LARGE if tier == "thorough" else 0)
    cases = [i for i in range(ncases) if i % 8 in kinds]
    names = {i: judge_name(i) for i in cases}
    nseeds = 1 if tier == "quick" else 16
    rates = ["0.1", "0.3", "0.05", "0.5"]
    t0 = time.time()
    ran, violations = 0, []
    jobs = []
    per_seed = max(1, njobs // nseeds) if nseeds < njobs else 1
    for k in range(nseeds):
        ms = (seed + 101 * k) % (1 << 31)
        flags = "-Zmiri-preemption-rate=%s" % rates[k % len(rates)]
        these = cases if k < 4 else [i for i in cases if i < JUDGE_CASES]
        for part in range(per_seed):
            jobs.append({"indices": these[part::per_seed], "seed": ms, "flags": flags,
                         "workdir": os.path.join(workdir, "judge%02d_%02d" % (k, part))})
    for j, done, fails, mism in run_pool(ws, names, jobs, njobs, "judge"):
        ms, flags = j["seed"], j["flags"]
        ran += len(done)
        for i, text in mism:
            kind = JUDGE_KINDS[i % 8]
            violations.append({"case": i, "name": names[i], "class": "wrong_result_under_miri", "op": JUDGE_OPS[kind],
                               "detail": text, "miri_seed": ms, "flags": flags})
        for f in fails:
            if f["index"] is None:
                if f["kind"] == "leak":
                    for where in f.get("leaks", []):
                        violations.append({"case": None, "name": None, "class": "leak", "op": where, "detail": "Miri: memory leaked, allocated in %s" % where, "miri_seed": ms, "flags": flags})
                else:
                    D.log("HARNESS-ERROR Miri ended outside any judged case: %s" % f["message"])
                    raise SystemExit(2)
                continue
            kind = JUDGE_KINDS[f["index"] % 8]
            violations.append({"case": f["index"], "name": names[f["index"]], "class": f["kind"], "op": JUDGE_OPS[kind],
                               "detail": "%s at %s" % (f["message"], f["location"]), "miri_seed": ms, "flags": flags})
    stats = {"judged_case_executions": ran, "cases": len(cases), "miri_seeds": nseeds, "preemption_rates": rates[:nseeds],
             "wall_s": round(time.time() - t0, 1),
             "what": "threaded operations on inputs of order 2..8 at 1..4 simulated CPUs (thorough: also orders 17 and 20 "
                     "at 2..4 CPUs), real std threads scheduled by "
                     "Miri with preemption and weak-memory emulation, results judged against the model"}
    return stats, violations


def write_judge_replay(pid, v):
    os.makedirs(D.REPLAYS, exist_ok=True)
    path = os.path.join(D.REPLAYS, "%s-judge-%s-s%d.json" % (pid, str(v["case"]), v["miri_seed"]))
    sig = "%s %s miri" % (v["class"], v["op"])
    json.dump({"property": pid, "engine": "simmem-judge", "case": v["case"], "name": v["name"], "miri_seed": v["miri_seed"],
               "miri_flags": v["flags"], "violation": {"class": v["class"], "op": v["op"], "signature": sig, "detail": v["detail"]},
               "minimised": True, "note": "judged cases are small by construction (order <= 8, <= 4 CPUs)"}, open(path, "w"), indent=1)
    return path, sig


def replay_judge(path, rf):
    ws = D.workspace()
    build(ws)
    p = subprocess.run(miri_cmd(ws, ["judge", str(rf["case"])]), cwd=ws, env=miri_env(rf["miri_seed"], rf.get("miri_flags", "")),
                       stdout=subprocess.PIPE, stderr=subprocess.PIPE, text=True)
    bad = p.returncode != 0 or "MISMATCH" in p.stdout
    if bad:
        kind, msg, loc = parse_diag(p.stderr) if p.returncode != 0 else ("wrong_result_under_miri", [l for l in p.stdout.splitlines() if "MISMATCH" in l][0], None)
        D.log("REPLAYED class=%s case=%s detail=%s" % (kind, rf["name"], msg))
        D.log("REPRODUCED property=%s signature=\"%s\"" % (rf["property"], rf["violation"]["signature"]))
        D.log("VIOLATION property=%s replay=%s" % (rf["property"], path))
        return 1
    D.log("NOT-REPRODUCED property=%s case=%s" % (rf["property"], rf["name"]))
    return 0
