"""Self-tests of the simulator (./check selftest [determinism|sensitivity|fidelity|all]).

determinism  the same VERIF_SEED / run indices executed twice and under 1, 4 and 16 worker
             processes must give bit-identical per-run digests (scenario, configurations, decision
             lists, outcomes) for every lane of the shuttle engine; Miri lane: same program + seed
             twice gives identical output.
sensitivity  every patch in /verif/mutants is applied to a scratch worktree of /repo (outside /repo and
             /verif; GRAAF_SRC / VERIF_WS redirect the build there), the quick check of its property
             must exit 1 with a VIOLATION whose replay file reproduces; the unmodified tree must stay
             silent. Evidence, replays and logs of these runs go to a scratch directory.
probes       reach probes that must be non-zero in the evidence of the last quick runs.
benign       behaviour-preserving rewrites by independent sub-agents (/verif/benign): every listed check
             must stay silent.
fidelity     the guard-off build (real std threads, real available_parallelism under taskset) must
             agree with the simulated results for the same CPU count (validates the seam stub).
"""
import glob
import json
import os
import shutil
import subprocess
import sys
import tempfile
import time

import driver as D


def _words(path):
    return D.read_words(path)


def determinism():
    ws = D.workspace()
    binary = D.build_sched(ws, quiet=True)
    ok = True
    total = 0
    for pid in sorted(D.PLAN):
        runs = 160 if pid == "C13" else 400
        for seed in (1, 7, 12345):
            ref = None
            for njobs in (16, 4, 1, 16):
                wd = tempfile.mkdtemp(prefix="verif_det_")
                try:
                    D.run_workers(binary, pid, "quick", runs, seed, wd, njobs)
                    m = {}
                    for k in range(njobs):
                        w = _words(os.path.join(wd, "shard%02d.json.runs" % k))
                        m.update(dict(zip(*[iter(w)] * 2)))
                finally:
                    shutil.rmtree(wd, ignore_errors=True)
                if len(m) != runs:
                    D.log("DETERMINISM %s seed=%d jobs=%d: %d of %d runs reported" % (pid, seed, njobs, len(m), runs))
                    ok = False
                if ref is None:
                    ref = m
                elif m != ref:
                    bad = [i for i in ref if m.get(i) != ref[i]]
                    D.log("DETERMINISM-MISMATCH %s seed=%d jobs=%d: runs %s differ" % (pid, seed, njobs, bad[:10]))
                    ok = False
                total += len(m)
        D.log("determinism %s: ok" % pid if ok else "determinism %s: FAILED" % pid)
    D.log("determinism: %d run digests compared across 1/4/16 worker processes and a repeated execution: %s"
          % (total, "identical" if ok else "MISMATCH"))
    # Miri lane: the same judged cases with the same seed and flags twice give identical output
    import memdriver as M
    M.build(ws)
    outs = []
    for _ in range(2):
        p = subprocess.run(M.miri_cmd(ws, ["judge"] + [str(i) for i in (9, 14, 45, 77, 110, 215)]), cwd=ws,
                           env=M.miri_env(4242, "-Zmiri-preemption-rate=0.3"), stdout=subprocess.PIPE, stderr=subprocess.PIPE, text=True)
        outs.append((p.returncode, p.stdout))
    same = outs[0] == outs[1] and outs[0][0] == 0
    D.log("determinism (Miri lane): two runs of 6 judged cases with seed 4242: %s" % ("identical" if same else "DIFFERENT"))
    return ok and same


# changes that are only reachable through the seam's extra scheduling points (DESIGN 10.15)
NEEDS_EXTRA_POINTS = {"complete_last_worker_sorts_by_strong_count", "R9C14"}


def _scratch_worktree(tmp):
    wt = os.path.join(tmp, "wt")
    subprocess.check_call(["git", "-C", D.REPO, "worktree", "add", "-q", "--detach", wt, "HEAD"])
    return wt


def sensitivity(only=None, with_suite=False):
    tmp = tempfile.mkdtemp(prefix="verif_sens_")
    results = []
    wt = None
    try:
        wt = _scratch_worktree(tmp)
        env = dict(os.environ)
        env.update({"GRAAF_SRC": os.path.join(wt, "src"), "VERIF_WS": os.path.join(tmp, "ws"),
                    "VERIF_EVIDENCE_DIR": os.path.join(tmp, "evidence"), "VERIF_REPLAY_DIR": os.path.join(tmp, "replays"),
                    "VERIF_LOG_DIR": os.path.join(tmp, "logs")})
        patches = sorted(glob.glob(os.path.join(D.ROOT, "mutants", "*.diff")))
        seeded = sorted(glob.glob(os.path.join(D.ROOT, "seeded", "*", "patch.diff")))
        for patch in patches + seeded:
            if "/seeded/" in patch:
                meta = json.load(open(os.path.join(os.path.dirname(patch), "meta.json")))
                pid, name = meta["property"], "seeded/" + os.path.basename(os.path.dirname(patch))
            else:
                base = os.path.basename(patch)[:-5]
                pid, name = base.split("-", 1)
            if only == "seeded":
                if "/seeded/" not in patch:
                    continue
            elif only == "mutants":
                if "/seeded/" in patch:
                    continue
            elif only and not any(o in (pid, name, name.split("/")[-1]) or
                                  (o.endswith("*") and name.split("/")[-1].startswith(o[:-1])) for o in only.split(",")):
                continue
            subprocess.check_call(["git", "-C", wt, "checkout", "-q", "--", "."])
            a = subprocess.run(["git", "-C", wt, "apply", patch], stderr=subprocess.PIPE, text=True)
            if a.returncode != 0:
                D.log("SENSITIVITY %s %s: patch does not apply: %s" % (pid, name, a.stderr.strip()[:200]))
                results.append((pid, name, "patch-does-not-apply"))
                continue
            suite = ""
            if with_suite:
                t = subprocess.run(["cargo", "test", "--workspace", "--no-fail-fast", "--offline"], cwd=wt, env=D.base_env(),
                                   stdout=subprocess.PIPE, stderr=subprocess.STDOUT, text=True)
                suite = " suite=%s" % ("passes" if t.returncode == 0 else "FAILS")
            t0 = time.time()
            shutil.rmtree(env["VERIF_REPLAY_DIR"], ignore_errors=True)
            r = subprocess.run([os.path.join(D.ROOT, "check"), pid, "quick"], env=env, stdout=subprocess.PIPE,
                               stderr=subprocess.STDOUT, text=True)
            vio = [ln for ln in r.stdout.splitlines() if ln.startswith("VIOLATION property=%s " % pid)]
            verdict = "MISSED (exit %d)" % r.returncode
            if name.startswith("NEG_"):
                # negative control: a change that does not break the property must not raise an alarm
                verdict = "detected, replay reproduces (negative control: silent as required)" if r.returncode == 0 and not vio \
                    else "FALSE ALARM on a negative control (exit %d)" % r.returncode
            elif r.returncode == 1 and vio:
                path = vio[0].split("replay=", 1)[1].strip()
                rp = subprocess.run([os.path.join(D.ROOT, "check"), "replay", path], env=env, stdout=subprocess.PIPE,
                                    stderr=subprocess.STDOUT, text=True)
                verdict = "detected, replay reproduces" if rp.returncode == 1 else "detected, REPLAY DID NOT REPRODUCE (rc=%d)" % rp.returncode
            elif r.returncode == 2:
                verdict = "HARNESS-ERROR: " + " | ".join(ln for ln in r.stdout.splitlines() if "HARNESS" in ln)[:300]
            if verdict.startswith("MISSED") and "/seeded/" in patch and meta.get("out_of_reach"):
                # recorded honestly: a confirmed change that this family of checks cannot reach (reason in meta.json
                # and DESIGN.md); reported, not counted as a failure of the self-test
                verdict = "OUT OF REACH, as recorded (not detected): " + meta["out_of_reach"][:160]
            sigs = [ln.strip() for ln in r.stdout.splitlines() if ln.strip().startswith("signature:")]
            if verdict.startswith("detected") and name.split("/")[-1] in NEEDS_EXTRA_POINTS:
                # which scheduling points made the difference: the same batch with the seam's extra points (inside
                # critical sections, at Arc reference counts) switched off must be silent
                env2 = dict(env, VERIF_NO_EXTRA_POINTS="1")
                r2 = subprocess.run([os.path.join(D.ROOT, "check"), pid, "quick"], env=env2, stdout=subprocess.PIPE,
                                    stderr=subprocess.STDOUT, text=True)
                verdict += "; without the seam's extra scheduling points: %s" % (
                    "silent (they are what reaches it)" if r2.returncode == 0 else "exit %d" % r2.returncode)
            D.log("SENSITIVITY %s %s: %s%s (%.0fs) %s" % (pid, name, verdict, suite, time.time() - t0, "; ".join(sigs)[:300]))
            results.append((pid, name, verdict))
    finally:
        if wt:
            subprocess.run(["git", "-C", D.REPO, "worktree", "remove", "--force", wt], stdout=subprocess.DEVNULL, stderr=subprocess.DEVNULL)
        shutil.rmtree(tmp, ignore_errors=True)
    out = [r for r in results if r[2].startswith("OUT OF REACH")]
    missed = [r for r in results if not r[2].startswith("detected, replay reproduces") and r not in out]
    D.log("sensitivity: %d of %d changes detected with a reproducing replay%s" % (
        len(results) - len(missed) - len(out), len(results),
        "; %d recorded as out of reach: %s" % (len(out), ", ".join(r[1] for r in out)) if out else ""))
    for pid, name, v in missed:
        D.log("  not detected: %s %s: %s" % (pid, name, v))
    return not missed


def benign(only=None):
    """Behaviour-preserving rewrites written by independent sub-agents (benign/<name>/patch.diff): every
    check listed in their meta.json must stay silent (exit 0, no VIOLATION line)."""
    tmp = tempfile.mkdtemp(prefix="verif_benign_")
    ok = True
    wt = None
    try:
        wt = _scratch_worktree(tmp)
        env = dict(os.environ)
        env.update({"GRAAF_SRC": os.path.join(wt, "src"), "VERIF_WS": os.path.join(tmp, "ws"),
                    "VERIF_EVIDENCE_DIR": os.path.join(tmp, "evidence"), "VERIF_REPLAY_DIR": os.path.join(tmp, "replays"),
                    "VERIF_LOG_DIR": os.path.join(tmp, "logs")})
        for patch in sorted(glob.glob(os.path.join(D.ROOT, "benign", "*", "patch.diff"))):
            name = os.path.basename(os.path.dirname(patch))
            if only and only != name:
                continue
            meta = json.load(open(os.path.join(os.path.dirname(patch), "meta.json")))
            subprocess.check_call(["git", "-C", wt, "checkout", "-q", "--", "."])
            a = subprocess.run(["git", "-C", wt, "apply", patch], stderr=subprocess.PIPE, text=True)
            if a.returncode != 0:
                D.log("BENIGN %s: patch does not apply: %s" % (name, a.stderr.strip()[:200]))
                ok = False
                continue
            for pid in meta["checks"]:
                t0 = time.time()
                r = subprocess.run([os.path.join(D.ROOT, "check"), pid, "quick"], env=env, stdout=subprocess.PIPE,
                                   stderr=subprocess.STDOUT, text=True)
                bad = [ln for ln in r.stdout.splitlines() if ln.startswith(("VIOLATION", "HARNESS-ERROR")) or ln.strip().startswith("signature:")]
                if r.returncode == 0 and not bad:
                    D.log("BENIGN %s %s: silent, as required (%.0fs)" % (name, pid, time.time() - t0))
                else:
                    D.log("BENIGN %s %s: ALARM (exit %d) %s" % (name, pid, r.returncode, " | ".join(bad)[:600]))
                    ok = False
    finally:
        if wt:
            subprocess.run(["git", "-C", D.REPO, "worktree", "remove", "--force", wt], stdout=subprocess.DEVNULL, stderr=subprocess.DEVNULL)
        shutil.rmtree(tmp, ignore_errors=True)
    return ok


REQUIRED_PROBES = {
    "C01": ["reach_probes/rejected_call_after_3_successful_mutations", "reach_probes/map_vertex_growth",
            "reach_probes/matrix_order_squared_not_multiple_of_64", "reach_probes/weighted_readd_replaces_weight",
            "reach_probes/remove_with_id_outside_V", "faults_injected/rejected_call/self_loop",
            "faults_injected/rejected_call/out_of_range"],
    "C11": ["reach_probes/union_operands_of_different_order", "reach_probes/union_partially_overlapping_vertex_sets",
            "reach_probes/rows_exceed_workers", "faults_injected/ap_error", "faults_injected/stalled_worker"],
    "C12": ["reach_probes/size_shortcut_passes_but_not_semicomplete", "reach_probes/size_shortcut_passes_but_not_tournament",
            "reach_probes/rows_exceed_workers"],
    "C14": ["reach_probes/matrix_beyond_one_word", "reach_probes/order_squared_not_multiple_of_64",
            "reach_probes/biclique_part_longer_than_one_word", "reach_probes/rows_exceed_workers",
            "faults_injected/inadmissible_parameter"],
    "C15": ["reach_probes/erdos_renyi_via_complement", "reach_probes/seed_whose_first_draw_is_exactly_zero",
            "reach_probes/p_1_with_a_draw_equal_to_zero", "reach_probes/same_cpu_other_schedule_compared",
            "faults_injected/inadmissible_parameter", "faults_injected/stalled_worker"],
    "C17": ["reach_probes/rows_exceed_workers", "reach_probes/same_cpu_other_schedule_compared",
            "relation_classes/rows<t", "relation_classes/rows=t", "relation_classes/t<rows<=2t", "relation_classes/rows>2t",
            "relation_classes/last_chunk_short", "faults_injected/ap_error", "faults_injected/stalled_worker",
            "faults_injected/preemption", "cpu_counts_covered/query_failed", "cpu_counts_covered/257+"]
           + ["cpu_counts_covered/%02d" % k for k in range(1, 17)],
    "C20": ["reach_probes/clone_then_diverge", "reach_probes/two_histories_same_digraph_compared",
            "reach_probes/neighbour_compared/arc", "reach_probes/neighbour_compared/order",
            "reach_probes/neighbour_compared/weight", "reach_probes/complete_digraph_reached_by_history"],
}


def probes():
    """Reach probes: counters that must be non-zero in the evidence of the last quick run of each check
    (a probe stuck at zero means the workload or fault mix no longer reaches that condition)."""
    ok = True
    for pid, req in sorted(REQUIRED_PROBES.items()):
        path = os.path.join(D.EVIDENCE, pid + ".json")
        try:
            cov = json.load(open(path))["coverage"]
        except Exception as e:  # noqa: BLE001
            D.log("PROBES %s: cannot read %s (%s)" % (pid, path, e))
            ok = False
            continue
        zero = []
        for r in req:
            group, key = r.split("/", 1)
            if not cov.get(group, {}).get(key, 0):
                zero.append(r)
        if zero:
            D.log("PROBES %s: stuck at zero: %s" % (pid, ", ".join(zero)))
            ok = False
        else:
            D.log("probes %s: all %d required probes fired" % (pid, len(req)))
    return ok


def fidelity():
    ws = D.workspace()
    binary = D.build_sched(ws, quiet=True)
    env = D.base_env()
    p = subprocess.run(["cargo", "build", "--release", "--offline", "-p", "simreal", "--target-dir", os.path.join(ws, "target-real")],
                       cwd=ws, env=env, stdout=subprocess.PIPE, stderr=subprocess.STDOUT, text=True)
    if p.returncode != 0:
        D.log(p.stdout[-3000:])
        D.log("HARNESS-ERROR build of simreal (guard off) failed")
        return False
    real = os.path.join(ws, "target-real", "release", "simreal")
    ok = True
    for k in (1, 2, 3, 5, 8, 16):
        r = subprocess.run(["taskset", "-c", "0-%d" % (k - 1), real], env=env, stdout=subprocess.PIPE, stderr=subprocess.PIPE, text=True)
        s = subprocess.run([binary, "fidelity", "--cpus", str(k)], env=env, stdout=subprocess.PIPE, stderr=subprocess.PIPE, text=True)
        rl, sl = r.stdout.splitlines(), s.stdout.splitlines()
        if r.returncode != 0 or s.returncode != 0 or not rl or rl[0] != "cpus %d" % k:
            D.log("FIDELITY k=%d: real rc=%d first line %r; simulated rc=%d" % (k, r.returncode, rl[:1], s.returncode))
            ok = False
            continue
        if rl[1:] != sl[1:]:
            diff = [i for i, (a, b) in enumerate(zip(rl[1:], sl[1:])) if a != b]
            D.log("FIDELITY-MISMATCH k=%d: %d of %d corpus results differ (first: real %r simulated %r)" % (k, len(diff), len(rl) - 1, rl[1 + diff[0]] if diff else "", sl[1 + diff[0]] if diff else ""))
            ok = False
        else:
            D.log("fidelity k=%d: real available_parallelism()=%d, %d corpus results equal the simulation and the model" % (k, k, len(rl) - 1))
    return ok


def main(argv):
    what = argv[0] if argv else "all"
    ok = True
    if what in ("determinism", "all"):
        ok &= determinism()
    if what in ("fidelity", "all"):
        ok &= fidelity()
    if what in ("probes", "all"):
        ok &= probes()
    if what in ("benign", "all"):
        ok &= benign(argv[1] if len(argv) > 1 else None)
    if what in ("sensitivity", "all"):
        only = argv[1] if len(argv) > 1 and not argv[1].startswith("--") else None
        ok &= sensitivity(only, "--with-suite" in argv)
    D.log("selftest %s: %s" % (what, "ok" if ok else "FAILED"))
    return 0 if ok else 2
