#!/usr/bin/env python3
"""Confirm a change written by a sub-agent and store it under /verif/seeded/<id>/.

  lib/confirm_seed.py <id> <property> <dir with patch.diff, seed_demo.rs, notes.json> [--check]

In a scratch worktree of /repo HEAD (outside /repo and /verif, removed afterwards): the patch applies, the
library builds (guard off and on), the existing suite passes unedited, the demonstration fails with the
change and passes without it. Only then is the change stored (patch.diff re-diffed against /repo HEAD,
seed_demo.rs, meta.json). With --check the property's quick check is then run against the changed sources
(GRAAF_SRC) and its outcome is appended to meta.json as `check_on_machinery_as_it_stood`.
"""
import json
import os
import re
import shutil
import subprocess
import sys

ROOT = os.path.dirname(os.path.dirname(os.path.abspath(__file__)))
REPO = "/repo"
ENV = dict(os.environ, CARGO_NET_OFFLINE="true")


def sh(cmd, cwd, timeout=3600, env=None):
    p = subprocess.run(cmd, cwd=cwd, shell=True, stdout=subprocess.PIPE, stderr=subprocess.STDOUT, text=True,
                       timeout=timeout, env=env or ENV)
    return p.returncode, p.stdout


def main():
    sid, prop, src = sys.argv[1], sys.argv[2], sys.argv[3]
    run_check = "--check" in sys.argv[4:]
    wt = "/tmp/confirm_%s" % sid
    subprocess.run(["git", "-C", REPO, "worktree", "remove", "--force", wt], stdout=subprocess.DEVNULL, stderr=subprocess.DEVNULL)
    subprocess.check_call(["git", "-C", REPO, "worktree", "add", "-q", "--detach", wt, "HEAD"])
    out = {"how": "scratch worktree %s at /repo HEAD: git apply (3-way if needed) patch.diff; cargo build --offline (guard off / "
                  "--cfg graaf_verif); cargo test --workspace --no-fail-fast --offline; seed_demo.rs as tests/seed_demo.rs with the "
                  "change, then after git apply -R" % wt}
    ok = False
    try:
        rc, o = sh("git apply %s/patch.diff || git apply -3 %s/patch.diff" % (src, src), wt)
        out["patch_applies"] = rc == 0
        if rc != 0:
            out["apply_output"] = o[-400:]
            return out, False
        sh("git reset -q", wt)
        rc, diff = sh("git diff -- src", wt)
        rc1, o1 = sh("cargo build --offline 2>&1 | tail -2", wt)
        rc2, o2 = sh("RUSTFLAGS='--cfg graaf_verif' cargo build --offline 2>&1 | tail -2", wt)
        out["build"] = "Finished" in o1 and "Finished" in o2
        if not out["build"]:
            out["build_output"] = (o1 + o2)[-600:]
            return out, False
        rc, o = sh("cargo test --workspace --no-fail-fast --offline 2>&1", wt)
        res = [l.strip() for l in o.splitlines() if l.startswith("test result:")]
        out["existing_suite"] = res
        suite_ok = len(res) >= 2 and all(" 0 failed" in l for l in res) and any("3514 passed" in l for l in res)
        out["existing_suite_passes"] = suite_ok
        if not suite_ok:
            out["suite_tail"] = [l for l in o.splitlines() if "FAILED" in l or "failed" in l][:10]
            return out, False
        os.makedirs(os.path.join(wt, "tests"), exist_ok=True)
        shutil.copy(os.path.join(src, "seed_demo.rs"), os.path.join(wt, "tests", "seed_demo.rs"))
        rc, o = sh("cargo test --offline --test seed_demo 2>&1", wt, timeout=1800)
        out["demo_with_change_exit"] = rc
        out["demo_with_change_output"] = [l for l in o.splitlines() if re.search(r"^test |panicked|test result", l)][:12]
        open("/tmp/confirm_%s.diff" % sid, "w").write(diff)
        rcx, ox = sh("git apply -R /tmp/confirm_%s.diff" % sid, wt)
        rc2, o2 = sh("cargo test --offline --test seed_demo 2>&1", wt, timeout=1800)
        out["demo_without_change_exit"] = rc2
        out["demo_without_change"] = [l for l in o2.splitlines() if l.startswith("test result")]
        ok = rc != 0 and rc2 == 0 and rcx == 0
        if ok:
            dst = os.path.join(ROOT, "seeded", sid)
            os.makedirs(dst, exist_ok=True)
            open(os.path.join(dst, "patch.diff"), "w").write(diff)
            shutil.copy(os.path.join(src, "seed_demo.rs"), os.path.join(dst, "seed_demo.rs"))
            notes = json.load(open(os.path.join(src, "notes.json")))
            meta = {"property": prop, "summary": notes.get("summary"), "needs": notes.get("needs"),
                    "files": notes.get("files"),
                    "author": "independent sub-agent given only the property text, a general brief and a scratch worktree "
                              "of /repo (nothing from /verif)",
                    "agent_ran": notes.get("agent_ran"), "confirmed_by_me": out}
            if run_check:
                os.remove(os.path.join(wt, "tests", "seed_demo.rs"))
                sh("git apply /tmp/confirm_%s.diff" % sid, wt)
                env = dict(ENV, GRAAF_SRC=os.path.join(wt, "src"))
                rc, o = sh("./check %s quick 2>&1" % prop, ROOT, timeout=5400, env=env)
                lines = [l[:300] for l in o.splitlines() if "VIOLATION" in l or "signature:" in l or "HARNESS" in l or l.startswith(prop + " quick:")]
                meta["check_on_machinery_as_it_stood"] = {"cmd": "GRAAF_SRC=<worktree>/src ./check %s quick" % prop, "exit": rc, "lines": lines[:14]}
                print("\n".join(lines[:14]))
            json.dump(meta, open(os.path.join(dst, "meta.json"), "w"), indent=1)
        return out, ok
    finally:
        subprocess.run(["git", "-C", REPO, "worktree", "remove", "--force", wt], stdout=subprocess.DEVNULL, stderr=subprocess.DEVNULL)
        try:
            os.remove("/tmp/confirm_%s.diff" % sid)
        except OSError:
            pass


if __name__ == "__main__":
    o, ok = main()
    print(json.dumps(o, indent=1)[:3000])
    print("CONFIRMED" if ok else "NOT-CONFIRMED")
    sys.exit(0 if ok else 1)
