"""C13 — the safe API is memory-safe and leak-free for every argument.

Lane U: the program catalogue under Miri (undefined behaviour, data races, leaks), including a
thread dimension (the threaded operations at 1..4 simulated CPUs under several Miri scheduler /
weak-memory seeds with preemption).
Lane L: the same catalogue natively in simsched with the allocation ledger (repeating a call does
not grow the heap)."""
import collections
import json
import os
import re
import shutil
import time

import driver as D
import memdriver as M

RULE = ("a case is one program of the enumerated catalogue (sim/vprog): one public entry point x representation x small "
        "digraph shape (trivial, path, cycle, dense, two SCCs, non-contiguous maps {0,2,9}, {0,1,7} with a successor id >= order, "
        "{0,1,70} with a tail id far beyond the order) x argument class (in-range, order, order+1, 2^40, usize::MAX; huge orders for O(1) constructors; user "
        "callback / iterator panicking at its 1st or 2nd call), the threaded operations at 1..4 simulated CPUs; plus 2 160 "
        "generated call sequences (start shape, 2-5 seeded mutations / whole-digraph operations / filters / conversions with "
        "ids of every class, then a traversal, algorithm or query), each step under catch_unwind; plus 3 240 generated "
        "structures (DAGs, chains of strong components, long paths / cycles up to order 70, stars, layered digraphs, "
        "unreachable parts, zero and negative weights with and without negative circuits) under every traversal and "
        "algorithm the representation supports, from 0..5 in-range sources. Lane U "
        "executes it under Miri (any diagnostic is a violation; a Rust panic or any return value is acceptable), lane L "
        "executes it three times natively under the allocation ledger. Non-trivial = the argument is outside the digraph, "
        "or a callback panics, or >= 2 simulated CPUs, or the digraph is non-contiguous; distinct = distinct program "
        "names (lane U, times Miri seed for the thread dimension)")


def nontrivial(name):
    entry, rep, shape, x, y, cb, t = name.split("/")
    if entry in M.GENERATED or entry == "rand_tree":
        return True
    return x not in ("in0", "inlast") or y not in ("in0", "inlast") or cb != "cb0" or t not in ("t0", "t1") \
        or shape.startswith("map")


def locate_leak(ws, names, programs, where, miri_seed, flags, seed):
    """Run candidate programs one at a time under Miri until one reports the leak on its own."""
    import subprocess
    cands = [n for n in programs if n.split("/")[0].replace("_threaded", "") in where]
    cands = (cands or programs)[:60]
    for n in cands:
        p = subprocess.run(M.miri_cmd(ws, ["run", "0:" + n]), cwd=ws, env=M.miri_env(miri_seed, flags),
                           stdout=subprocess.PIPE, stderr=subprocess.PIPE, text=True)
        if "memory leaked" in p.stderr and where in " ".join(M.leak_frames(p.stderr)):
            f = {"name": n, "kind": "leak", "message": "memory leaked, allocated in %s" % where, "location": None,
                 "miri_seed": miri_seed}
            path, _ = M.write_replay("C13", seed, f, flags)
            rf = json.load(open(path))
            rf["violation"]["signature"] = "leak %s" % where
            json.dump(rf, open(path, "w"), indent=1)
            return path
    return None


def run(tier):
    t0 = time.time()
    seed = D.verif_seed()
    njobs = D.jobs()
    # ---------------- lane U (Miri)
    ws = D.workspace()
    names = M.build(ws)
    workdir = os.path.join(D.LOGS, "C13-%s-mem" % tier)
    if os.path.exists(workdir):
        shutil.rmtree(workdir)
    os.makedirs(workdir)
    idx = M.select_programs(names, tier, seed)
    t1 = time.time()
    failures = []
    done = []
    batches = []
    # pass 1: the selected programs, Miri seed = VERIF_SEED, default preemption
    miri_seed = seed % (1 << 31)
    d1, f1 = M.run_catalogue(ws, names, idx, miri_seed, "", os.path.join(workdir, "pass1"), njobs)
    for f in f1:
        f["miri_seed"], f["flags"] = miri_seed, ""
    done += [(i, miri_seed) for i, _ in d1]
    failures += f1
    batches.append({"what": "catalogue slice" if tier == "quick" else "whole catalogue", "programs": len(idx), "miri_seed": miri_seed})
    # pass 2: thread dimension - the threaded programs under several Miri seeds with preemption
    th = M.threaded_programs(names)
    nseeds = 8 if tier == "quick" else 64
    if tier == "quick":
        th = [i for i in th if names[i].split("/")[6] in ("t2", "t3")]
    rates = ["0.05", "0.1", "0.2", "0.3"]
    jobs = []
    per_seed = max(1, njobs // nseeds) if nseeds < njobs else 1
    for k in range(nseeds):
        s = (miri_seed + 1 + k) % (1 << 31)
        flags = "-Zmiri-preemption-rate=%s" % rates[k % len(rates)]
        for part in range(per_seed):
            jobs.append({"indices": th[part::per_seed], "seed": s, "flags": flags,
                         "workdir": os.path.join(workdir, "seed%02d_%02d" % (k, part))})
    for j, d2, f2, _ in M.run_pool(ws, names, jobs, njobs):
        for f in f2:
            f["miri_seed"], f["flags"] = j["seed"], j["flags"]
        done += [(i, j["seed"]) for i, _ in d2]
        failures += f2
    batches.append({"what": "threaded programs x Miri scheduler/weak-memory seeds with preemption", "programs": len(th),
                    "miri_seeds": nseeds, "preemption_rates": rates})
    mem_wall = time.time() - t1
    # ---------------- lane L (native, allocation ledger)
    ub = [f for f in failures if f["kind"] in ("undefined_behavior", "data_race", "abort")]
    if ub:
        # undefined behaviour executed natively corrupts the worker's heap: restrict lane L to the
        # programs whose arguments are all in range
        os.environ["VERIF_C13_SAFE"] = "1"
        D.log("lane U found undefined behaviour: lane L runs on the in-range subset of the catalogue only")
    # lane L walks the catalogue: once in quick, three times (other schedulers) in thorough; the in-range
    # subset is about a third of it
    n_l = len(names) * (1 if tier == "quick" else 3)
    lane_l = D.sched_phase("C13", tier, runs=n_l)
    # ---------------- triage of lane U
    known = [k for k in D.load_known() if k.get("property") == "C13" and k.get("status") == "known"]
    by_sig = collections.OrderedDict()
    herr = lane_l["herr"]
    for f in failures:
        if f["name"] is None:
            if f["kind"] == "leak":
                for where in f.get("leaks", []):
                    sig = "leak %s" % where
                    if sig not in by_sig:
                        # find one program of that batch that leaks on its own: that is the replay
                        path = locate_leak(ws, names, f.get("programs", []), where, f["miri_seed"], f["flags"], seed)
                        by_sig[sig] = {"count": 0, "replay": path, "detail": "Miri: memory leaked, allocated in %s" % where, "signature": sig}
                        if path is None:
                            D.log("HARNESS-ERROR no single program of the batch reproduces the leak in %s" % where)
                            herr = True
                    by_sig[sig]["count"] += 1
                continue
            D.log("HARNESS-ERROR Miri ended outside any program: %s" % f["message"])
            D.log(f["stderr"][-1500:])
            herr = True
            continue
        if f["kind"] in ("unsupported", "miri_error"):
            D.log("HARNESS-ERROR Miri could not execute %s: %s" % (f["name"], f["message"]))
            herr = True
            continue
        path, sig = M.write_replay("C13", seed, f, f["flags"])
        e = by_sig.setdefault(sig, {"count": 0, "replay": path, "detail": "%s at %s (program %s)" % (f["message"], f["location"], f["name"]), "signature": sig})
        e["count"] += 1
    new_u, known_u = [], []
    for sig, e in by_sig.items():
        hit = next((k for k in known if k.get("signature") == sig), None)
        if hit:
            e["what"] = hit.get("what", "")
            known_u.append(e)
        else:
            new_u.append(e)
    new = lane_l["new"] + new_u
    known_hits = lane_l["known"] + known_u
    # ---------------- evidence
    cov = lane_l["coverage"]
    ran_u = len(done)
    distinct_u = len({(i, s) for i, s in done if nontrivial(names[i])} | {(f["index"], f["miri_seed"]) for f in failures if f["index"] is not None and nontrivial(names[f["index"]])})
    sample_names = [names[i] for i in idx[:: max(1, len(idx) // 4)]][:4]
    per_entry = collections.Counter(names[i].split("/")[0] for i, _ in done)
    coverage = {
        "evaluations": ran_u + len([f for f in failures if f["index"] is not None]) + cov["evaluations"],
        "distinct_nontrivial": distinct_u,
        "rule": RULE,
        "samples": [{"program": n, "meaning": "entry/representation/shape/x/y/callback-panic-at/CPUs"} for n in sample_names] + cov["samples"][:1],
        "exhaustive": False,
        "lane_U_miri": {
            "programs_in_catalogue": len(names),
            "programs_selected": len(idx),
            "program_executions": ran_u,
            "batches": batches,
            "diagnostics": len(failures),
            "entry_points_executed": len(per_entry),
            "wall_s": round(mem_wall, 1),
            "program_executions_per_hour": int(ran_u / mem_wall * 3600) if mem_wall > 0 else 0,
            "miri_flags": M.MIRI_BASE_FLAGS,
            "real": ["all of graaf compiled from /repo's working tree with --cfg graaf_verif (seam on std threads), "
                     "interpreted by Miri: bounds, liveness, data races, weak memory, leaks"],
            "stubbed": ["available_parallelism -> verif_seam (1..4 CPUs)"],
        },
        "lane_L_ledger": {k: cov[k] for k in ("runs", "scheduled_executions", "simulated_steps", "distinct_schedules",
                                               "faults_injected", "schedulers", "reach_probes", "other_counters",
                                               "runs_per_hour", "determinism_spotcheck_runs")},
        "faults_injected": {
            "bad_vertex_id_programs": sum(1 for i, _ in done if names[i].split("/")[3] not in ("in0", "inlast") or names[i].split("/")[4] not in ("in0", "inlast")),
            "callback_panic_programs": sum(1 for i, _ in done if names[i].split("/")[5] != "cb0"),
            "huge_order_programs": sum(1 for i, _ in done if "huge" in names[i]),
            "miri_seeds": nseeds + 1,
            "ledger": cov["faults_injected"],
        },
        "fault_kinds_not_applicable": cov["fault_kinds_not_applicable"],
        "components": D.COMPONENTS,
        "repo": D.repo_state(),
        "known_findings_hit": [k["signature"] for k in known_hits],
        "new_violation_signatures": [k["signature"] for k in new],
    }
    assumptions = D.ASSUMPTIONS + [
        "Miri with -Zmiri-permissive-provenance (graaf casts pointers through usize): provenance errors through those "
        "pointers may be missed; Miri does not cross FFI (graaf has none)",
        "harness profile has overflow-checks = false so that order * order wraps as in a release build",
        "allocation failure, thread-spawn failure and stack exhaustion are not explored",
    ]
    wall = time.time() - t0
    D.write_evidence("C13", tier, seed, "exploration", coverage, assumptions, wall, len(new))
    D.report("C13", new, known_hits)
    D.log("C13 %s: lane U %d program executions under Miri (%d diagnostics), lane L %d runs / %d executions; %d new "
          "violation signature(s), %d known; %.1fs" % (tier, ran_u, len(failures), cov["runs"], cov["scheduled_executions"],
                                                        len(new), len(known_hits), wall))
    if herr:
        return 2
    return 1 if new else 0
