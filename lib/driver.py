"""Driver logic for ./check (python3 stdlib only)."""
import hashlib
import json
import os
import shutil
import struct
import subprocess
import tempfile
import sys
import time

ROOT = os.path.dirname(os.path.dirname(os.path.abspath(__file__)))
SIM = os.path.join(ROOT, "sim")
REPO = "/repo"
# the self-test redirects these so that runs against mutated scratch copies never touch the evidence
REPLAYS = os.environ.get("VERIF_REPLAY_DIR") or os.path.join(ROOT, "replays")
LOGS = os.environ.get("VERIF_LOG_DIR") or os.path.join(ROOT, "logs")
EVIDENCE = os.environ.get("VERIF_EVIDENCE_DIR") or os.path.join(ROOT, "evidence")
KNOWN = os.path.join(ROOT, "known_findings.json")

SCHED_FLAGS = "--cfg graaf_verif --cfg graaf_verif_shuttle"

# runs per (property, tier) for the shuttle engine; fixed counts (never a time
# box) so that one VERIF_SEED always denotes the same set of runs
PLAN = {
    "C01": {"quick": 160000, "thorough": 12000000},
    "C11": {"quick": 16000, "thorough": 600000},
    "C12": {"quick": 24000, "thorough": 4000000},
    "C13": {"quick": 11694, "thorough": 35082},  # lane L: the whole catalogue once / three times (other schedulers)
    "C14": {"quick": 16008, "thorough": 104856},  # 2x / 6x the enumerated grid (8004 / 17476 cells)
    "C15": {"quick": 16000, "thorough": 300000},
    "C17": {"quick": 40000, "thorough": 200000},
    "C20": {"quick": 60000, "thorough": 3000000},
}

TITLES = {}


def log(msg):
    print(msg, flush=True)


def base_env():
    env = dict(os.environ)
    env["CARGO_NET_OFFLINE"] = "true"
    env["RUST_BACKTRACE"] = "0"
    for k in list(env):
        if k.startswith("SHUTTLE_"):
            del env[k]
    env.pop("RUSTFLAGS", None)
    env.pop("CARGO_TARGET_DIR", None)
    return env


def jobs():
    try:
        return max(1, int(os.environ.get("VERIF_JOBS", "16")))
    except ValueError:
        return 16


def verif_seed():
    try:
        return int(os.environ.get("VERIF_SEED", "1")) & 0xFFFFFFFFFFFFFFFF
    except ValueError:
        return 1


SEAM_REWRITES = [
    (r"\b(?:::)?std::sync::atomic::", "crate::verif_seam::atomic::"),
    (r"\b(?:::)?std::sync::(Mutex|RwLock|Condvar|Barrier|mpsc|Arc)\b", r"crate::verif_seam::\1"),
    (r"\b(?:::)?std::thread::(spawn|scope|yield_now|sleep|park|current|Builder|JoinHandle|Scope|ScopedJoinHandle|available_parallelism)\b",
     r"crate::verif_seam::thread::\1"),
]


def split_functions(text):
    import re
    return re.split(r"\n(?=    (?:pub )?(?:unsafe )?fn )", text)


def patched_sources(src, dst):
    """Copy `src` to `dst`; inside every function that imports the seam, thread / sync primitives written with
    their full std path are redirected to the seam, so that the simulator schedules them too. Only used when
    seam_report() found such paths; the unchanged tree is compiled straight from /repo/src."""
    import re
    if os.path.exists(dst):
        shutil.rmtree(dst)
    shutil.copytree(src, dst)
    n = 0
    for root, _, files in os.walk(dst):
        for f in files:
            if not f.endswith(".rs") or f == "verif_seam.rs":
                continue
            path = os.path.join(root, f)
            text = open(path).read()
            parts = split_functions(text)
            out = []
            for part in parts:
                body, sep, tests = part.partition("\n#[cfg(test)]")
                if "use crate::verif_seam::" in body and re.match(r"    (?:pub )?(?:unsafe )?fn ", body):
                    for pat, rep in SEAM_REWRITES:
                        body, k = re.subn(pat, rep, body)
                        n += k
                out.append(body + sep + tests)
            new = "\n".join(out)
            if new != text:
                open(path, "w").write(new)
    return n


def workspace():
    """Directory of the cargo workspace to build. /verif/sim compiles /repo/src directly. A scratch copy of the
    workspace (VERIF_WS, or a directory under /tmp derived from the source path; outside /repo and /verif) is
    generated when GRAAF_SRC points elsewhere (self-tests) or when the sources use std thread/sync paths inside
    a seamed function (then the shadow manifest points at a patched copy of the sources, see patched_sources)."""
    src = os.path.abspath(os.environ.get("GRAAF_SRC") or os.path.join(REPO, "src"))
    bypass = seam_report(src)["std_paths_inside_seamed_functions"]
    if src == os.path.join(REPO, "src") and not bypass:
        return SIM
    ws = os.environ.get("VERIF_WS") or os.path.join("/tmp", "verif_ws_" + hashlib.sha1(src.encode()).hexdigest()[:12])
    ws = os.path.abspath(ws)
    if ws.startswith(REPO + "/") or ws.startswith(ROOT + "/"):
        raise SystemExit("VERIF_WS must be outside /repo and /verif")
    os.makedirs(ws, exist_ok=True)
    for name in os.listdir(SIM):
        if name.startswith("target") or name == ".build":
            continue
        s_, d_ = os.path.join(SIM, name), os.path.join(ws, name)
        if os.path.isdir(s_):
            if os.path.exists(d_):
                shutil.rmtree(d_)
            shutil.copytree(s_, d_)
        else:
            shutil.copy2(s_, d_)
    use_src = src
    if bypass:
        use_src = os.path.join(ws, "patched_src")
        n = patched_sources(src, use_src)
        log("NOTE %d std thread/sync path(s) inside seamed functions redirected to the seam in a patched copy of the "
            "sources (%s)" % (n, "; ".join(bypass)))
    man = os.path.join(ws, "shadow", "Cargo.toml")
    text = open(man).read().replace('path = "/repo/src/lib.rs"', 'path = "%s/lib.rs"' % use_src)
    open(man, "w").write(text)
    return ws


def build_sched(ws, quiet=False):
    env = base_env()
    env["RUSTFLAGS"] = SCHED_FLAGS
    t0 = time.time()
    cmd = ["cargo", "build", "--release", "--offline", "-p", "simsched", "--target-dir", os.path.join(ws, "target-sched")]
    p = subprocess.run(cmd, cwd=ws, env=env, stdout=subprocess.PIPE, stderr=subprocess.STDOUT, text=True)
    if p.returncode != 0:
        log(p.stdout[-6000:])
        log("HARNESS-ERROR build of simsched failed")
        raise SystemExit(2)
    if not quiet:
        log("built simsched in %.1fs (sources: %s)" % (time.time() - t0, os.environ.get("GRAAF_SRC", "/repo/src")))
    return os.path.join(ws, "target-sched", "release", "simsched")


def repo_state():
    try:
        head = subprocess.run(["git", "-C", REPO, "rev-parse", "HEAD"], stdout=subprocess.PIPE, text=True).stdout.strip()
        diff = subprocess.run(["git", "-C", REPO, "diff", "HEAD"], stdout=subprocess.PIPE).stdout
        return {"head": head, "dirty_diff_sha256": hashlib.sha256(diff).hexdigest() if diff else None}
    except Exception:  # noqa: BLE001
        return {"head": None, "dirty_diff_sha256": None}


def load_known():
    if not os.path.exists(KNOWN):
        return []
    return json.load(open(KNOWN)).get("findings", [])


def read_words(path):
    try:
        b = open(path, "rb").read()
    except OSError:
        return []
    return list(struct.unpack("<%dQ" % (len(b) // 8), b[: len(b) // 8 * 8]))


def last_begin(path):
    try:
        with open(path, "rb") as f:
            f.seek(0, 2)
            size = f.tell()
            f.seek(max(0, size - 4096))
            tail = f.read().decode("utf-8", "replace")
    except OSError:
        return None
    idx = None
    for line in tail.splitlines():
        if line.startswith("BEGIN "):
            try:
                idx = int(line.split()[1])
            except ValueError:
                pass
    return idx


def run_workers(binary, pid, tier, runs, seed, workdir, njobs, extra=None):
    """Run the shards; returns (outputs, crashes). A shard that dies is re-run
    skipping the run it died in (after confirming in a fresh process that this
    single run kills the process again)."""
    os.makedirs(workdir, exist_ok=True)
    os.makedirs(REPLAYS, exist_ok=True)
    env = base_env()
    procs = []
    for k in range(njobs):
        out = os.path.join(workdir, "shard%02d.json" % k)
        cmd = [binary, "worker", "--prop", pid, "--tier", tier, "--seed", str(seed), "--shard", str(k),
               "--shards", str(njobs), "--runs", str(runs), "--out", out, "--replay-dir", REPLAYS]
        if extra:
            cmd += extra
        so = open(os.path.join(workdir, "shard%02d.stdout" % k), "w")
        se = open(os.path.join(workdir, "shard%02d.stderr" % k), "w")
        procs.append((k, cmd, out, subprocess.Popen(cmd, env=env, stdout=so, stderr=se), so, se))
    outputs, crashes = [], []
    # wall-clock limit per batch: a primitive outside the seam (a std mutex, channel or condvar) that blocks
    # inside a simulated task would otherwise stop the simulator forever
    limit = float(os.environ.get("VERIF_WORKER_TIMEOUT", "1200" if tier == "quick" else "14400"))
    deadline = time.time() + limit
    for k, cmd, out, p, so, se in procs:
        try:
            rc = p.wait(timeout=max(1.0, deadline - time.time()))
        except subprocess.TimeoutExpired:
            for _, _, _, q, _, _ in procs:
                if q.poll() is None:
                    q.kill()
            idx = last_begin(out + ".current")
            log("HARNESS-ERROR worker shard %d did not finish within %.0fs (stuck in run %s): a blocking primitive "
                "outside the verification seam may have stopped the simulator; the Miri lanes still schedule it" % (k, limit, idx))
            raise SystemExit(2)
        so.close()
        se.close()
        skip = []
        while rc != 0:
            idx = last_begin(out + ".current")
            if idx is None or idx in skip:
                log("HARNESS-ERROR worker shard %d exited %s without a BEGIN line to attribute it to" % (k, rc))
                raise SystemExit(2)
            # confirm in a fresh process that this single run reproduces the death
            single = subprocess.run(cmd + ["--only-run", str(idx), "--out", out + ".single"], env=env,
                                    stdout=subprocess.DEVNULL, stderr=subprocess.DEVNULL)
            if single.returncode == 0:
                log("HARNESS-ERROR shard %d died (rc=%s) in run %d but that run alone does not reproduce it" % (k, rc, idx))
                raise SystemExit(2)
            crashes.append({"run_index": idx, "rc": single.returncode})
            skip.append(idx)
            with open(os.path.join(workdir, "shard%02d.stdout" % k), "w") as so2, \
                    open(os.path.join(workdir, "shard%02d.stderr" % k), "a") as se2:
                rc = subprocess.run(cmd + ["--skip", ",".join(map(str, skip))], env=env, stdout=so2, stderr=se2).returncode
        outputs.append(json.load(open(out)))
    return outputs, crashes


def aggregate(outputs):
    agg = {"runs": 0, "executions": 0, "sequential_checks": 0, "steps": 0, "choice_points": 0, "switches": 0,
           "preemptions": 0, "max_steps_one_execution": 0, "max_workers_one_execution": 0, "counters": {}, "samples": []}
    violations = []
    wall = 0.0
    for o in outputs:
        s = o["stats"]
        for k in ("runs", "executions", "sequential_checks", "steps", "choice_points", "switches", "preemptions"):
            agg[k] += s[k]
        for k in ("max_steps_one_execution", "max_workers_one_execution"):
            agg[k] = max(agg[k], s[k])
        for k, v in s["counters"].items():
            agg["counters"][k] = agg["counters"].get(k, 0) + v
        if len(agg["samples"]) < 4:
            agg["samples"].extend(s["samples"][: 4 - len(agg["samples"])])
        violations.extend(o["violations"])
        wall = max(wall, o["wall_s"])
    violations.sort(key=lambda v: (v["run_index"], v["signature"]))
    return agg, violations, wall


def distinct(binary, files):
    files = [f for f in files if os.path.exists(f)]
    if not files:
        return 0, 0
    p = subprocess.run([binary, "distinct"] + files, stdout=subprocess.PIPE, text=True, env=base_env())
    a, b = p.stdout.split()
    return int(a), int(b)


def sig_id(sig):
    return hashlib.sha1(sig.encode()).hexdigest()[:10]


def run_history(binary, h, workdir):
    """Execute the runs `from..upto` of one shard in a fresh process; returns the signatures violated by run `upto`."""
    os.makedirs(workdir, exist_ok=True)
    out = os.path.join(workdir, "history.json")
    cmd = [binary, "worker", "--prop", h["property"], "--tier", h["tier"], "--seed", str(h["verif_seed"]),
           "--shard", str(h["shard"]), "--shards", str(h["shards"]), "--runs", str(h["runs"]),
           "--from", str(h["from"]), "--upto", str(h["upto"]), "--out", out, "--replay-dir", workdir]
    env = base_env()
    env.update(h.get("switches", {}))
    r = subprocess.run(cmd, env=env, stdout=subprocess.DEVNULL, stderr=subprocess.DEVNULL)
    if r.returncode != 0 or not os.path.exists(out):
        return None
    vs = json.load(open(out))["violations"]
    return sorted({v["signature"] for v in vs if v["run_index"] == h["upto"]})


def history_replay(binary, pid, tier, seed, njobs, runs, first, sig):
    """A violation that a fresh process does not show for the run alone may depend on state that survives a
    call (a cache in a static or thread-local, a buffer pool): look for the shortest suffix of the runs that the
    worker process had executed before it which reproduces the violation in a fresh process. The replay file
    names that run sequence."""
    if tier is None or not njobs:
        return None
    upto = first["run_index"]
    shard = upto % njobs
    tmp = tempfile.mkdtemp(prefix="verif_hist_")
    try:
        span = 2
        while True:
            frm = max(shard, upto - (span - 1) * njobs)
            h = {"property": pid, "kind": "history", "tier": tier, "verif_seed": seed, "shard": shard, "shards": njobs,
                 "runs": runs, "from": frm, "upto": upto,
                 "switches": {k: os.environ[k] for k in ("VERIF_NO_EXTRA_POINTS", "VERIF_C14_NO_EARLIER_CALL") if k in os.environ}}
            got = run_history(binary, h, os.path.join(tmp, "s%d" % span))
            if got is not None and sig in got:
                h["violation"] = {"signature": sig, "detail": first["detail"][:600]}
                h["note"] = ("the last run of this sequence violates the property only after the earlier runs of the "
                             "same process (%d runs in all): state survives a call" % ((upto - frm) // njobs + 1))
                path = os.path.join(REPLAYS, "%s-seed%d-%s-history.json" % (pid, seed, sig_id(sig)))
                json.dump(h, open(path, "w"), indent=1)
                return path
            if frm == shard or span > 200000:
                return None
            span *= 4
    finally:
        shutil.rmtree(tmp, ignore_errors=True)


def triage(binary, pid, violations, seed, tier=None, njobs=None, runs=None):
    """Minimise and confirm one replay per distinct signature; split into new
    violations and known findings. Returns (new, known_hits, harness_error)."""
    known = [k for k in load_known() if k.get("property") == pid and k.get("status") == "known"]
    by_sig = {}
    for v in violations:
        by_sig.setdefault(v["signature"], []).append(v)
    new, known_hits = [], []
    harness_error = False
    env = base_env()
    for n, (sig, vs) in enumerate(sorted(by_sig.items())):
        first = next((v for v in vs if v.get("replay")), vs[0])
        replay = first["replay"]
        if n < 8 and replay and os.path.exists(replay):
            minp = os.path.join(REPLAYS, "%s-seed%d-%s-min.json" % (pid, seed, sig_id(sig)))
            try:
                m = subprocess.run([binary, "minimise", replay, minp, "--budget", "2000"], env=env,
                                   stdout=subprocess.PIPE, stderr=subprocess.DEVNULL, text=True, timeout=600)
                cand = minp if (m.returncode == 0 and os.path.exists(minp)) else replay
            except subprocess.TimeoutExpired:
                cand = replay
            r = subprocess.run([binary, "replay", cand], env=env, stdout=subprocess.PIPE,
                               stderr=subprocess.DEVNULL, text=True)
            killed = sig == "process_killed"
            # a replay that kills the process counts as reproduced for every class: undefined behaviour
            # may answer wrongly in one process and crash in the next, and neither is acceptable
            ok = (r.returncode < 0) or (not killed and r.returncode == 1 and "REPRODUCED" in r.stdout)
            if ok:
                replay = cand
            else:
                hist = history_replay(binary, pid, tier, seed, njobs, runs, first, sig)
                if hist:
                    log("NOTE %s: the run alone does not reproduce it, the sequence of runs before it does (%s)" % (sig, hist))
                    replay = hist
                else:
                    log("HARNESS-ERROR replay %s did not reproduce (rc=%s)" % (cand, r.returncode))
                    harness_error = True
        entry = {"signature": sig, "count": len(vs), "replay": replay, "detail": first["detail"][:600],
                 "first_run_index": first["run_index"]}
        hit = next((k for k in known if k.get("signature") == sig), None)
        if hit:
            entry["what"] = hit.get("what", "")
            known_hits.append(entry)
        else:
            new.append(entry)
    # the raw per-run replay files of signatures that were minimised are no longer needed
    keep = {e["replay"] for e in new + known_hits}
    for v in violations:
        p = v.get("replay")
        if p and p not in keep and os.path.exists(p):
            try:
                os.remove(p)
            except OSError:
                pass
    return new, known_hits, harness_error


COMPONENTS = {
    "real": ["all of graaf's library code compiled from /repo's working tree, including its unsafe blocks, "
             "chunking arithmetic, merge-path partitioning and its xoshiro256** PRNG"],
    "stubbed": ["std::thread::{spawn, scope}, JoinHandle::join, Mutex, AtomicBool -> shuttle 0.9.3 (all orderings "
                "treated as SeqCst, preemption at these operations)",
                "Mutex / RwLock / Arc inside the seamed functions -> verif_seam wrappers: in 3 of 8 schedules one more "
                "scheduling point right after every lock acquisition (the holder can be descheduled inside its critical "
                "section) and before every Arc reference-count operation (clone, drop, strong_count, try_unwrap, "
                "into_inner, get_mut, make_mut)",
                "std::thread::available_parallelism -> verif_seam (configured CPU count or injected error)"],
    "not_present_in_graaf": ["disk / file I/O", "network", "clocks, timers, sleeps", "persistence / crash-restart",
                             "async tasks", "hash-randomised containers"],
}


def write_evidence(pid, tier, seed, level, coverage, assumptions, wall, nviol):
    os.makedirs(EVIDENCE, exist_ok=True)
    ev = {"property_id": pid, "tier": tier, "seed": seed, "level": level, "coverage": coverage,
          "assumptions": assumptions, "wall_s": round(wall, 3), "violations": nviol}
    tmp = os.path.join(EVIDENCE, pid + ".json.tmp")
    json.dump(ev, open(tmp, "w"), indent=1, sort_keys=True)
    os.replace(tmp, os.path.join(EVIDENCE, pid + ".json"))


RULES = {
    "C01": "a case is (representation, start digraph from a public constructor, mutation history of add_arc / "
           "add_arc_weighted / remove_arc / toggle with injected rejected calls) drawn from VERIF_SEED and checked against "
           "the lock-step model after every step; non-trivial = history of >= 3 steps containing >= 1 call that must be "
           "rejected, executed to the end; distinct = distinct digests of the whole case",
    "C11": "a case is an input (D, E, vertex predicate) checked in every representation against the set definitions, the "
           "three threaded implementations additionally under several (CPU count or failing query, scheduler) "
           "configurations; non-trivial = (a) a threaded execution that really spawned >= 2 workers on an input with "
           "more rows than workers, or (b) an input with >= 2 vertices and >= 1 arc; distinct = distinct digests of "
           "(input) resp. (input, configuration)",
    "C12": "a case is a pair (H, D) of near-miss digraphs whose predicates are evaluated in every representation against "
           "the definitions, AdjacencyList::is_semicomplete under several (CPU count, scheduler) configurations; "
           "non-trivial = D has >= 2 vertices, or a threaded execution with >= 2 workers and more rows than workers; "
           "distinct = distinct digests",
    "C14": "the (generator, parameter) grid is enumerated completely (orders 0..=70 quick / 0..=136 thorough, biclique "
           "(m,n) with m+n <= 100 quick / 160 thorough plus 159 splits of 17 totals in 177..=513, linear generators at 19 orders "
           "in 191..=1025, trivial/claw/utility, inadmissible parameters must panic) in all four "
           "representations, every sequential generator at 4 simulated CPU counts (1, 16, two drawn) inside the ambient "
           "execution; AdjacencyList::complete additionally under sampled (CPU count, scheduler) configurations; "
           "non-trivial = grid cell with a non-empty arc set, or threaded execution with >= 2 workers and more rows than "
           "workers; distinct = distinct digests of the cell resp. (cell, configuration)",
    "C15": "a case is (generator, order, seed, p) checked for validity and repeatability in all four representations, the "
           "threaded AdjacencyMap generators under >= 4 schedulers per CPU count (one stalling a worker) with two calls "
           "per execution; non-trivial = admissible arguments with order >= 2, or threaded execution with >= 2 workers "
           "and more rows than workers; distinct = distinct digests",
    "C17": "cases are (operation with explicit operands, CPU-count-or-error, scheduler kind+seed) triples drawn from "
           "VERIF_SEED; a case counts as non-trivial when the execution really spawned >= 2 workers and the input has "
           "more rows than workers (some chunk holds >= 2 rows / a merge partition lies inside the input); distinct = "
           "distinct 64-bit digests of (operands, configuration)",
    "C20": "a case is (representation, history A, route B to the same abstract digraph, route C to a neighbour digraph, "
           "two post-clone mutation histories); non-trivial = history A has >= 1 mutation and route B has >= 1 detour "
           "mutation; distinct = distinct digests of the whole case",
}


ASSUMPTIONS = [
    "sampling: a clean batch is evidence within the stated sizes, not a proof",
    "shuttle preempts only at spawn/join/scope/mutex/atomic operations and treats every atomic ordering as SeqCst; "
    "data races on plain memory and Relaxed-only anomalies are left to the Miri lane",
    "the reference model (set definitions in sim/vmodel) is correct",
    "the seam covers the eight operations that are threaded today; a new threaded function would run real threads",
]


def seam_report(src=None):
    """Static look at the sources the checks are about to compile: thread / sync primitives written with their
    full std path inside a hand-threaded function bypass the seam (the shuttle lanes cannot preempt there;
    only the Miri lanes schedule them), and thread creation outside the functions that import the seam is
    not scheduled at all. Reported in the evidence and as a NOTE line; never an alarm."""
    import re
    src = src or os.environ.get("GRAAF_SRC") or os.path.join(REPO, "src")
    bypass, unseamed, tls = [], [], []
    for root, _, files in os.walk(src):
        for f in files:
            if not f.endswith(".rs") or f == "verif_seam.rs":
                continue
            path = os.path.join(root, f)
            try:
                text = open(path).read()
            except OSError:
                continue
            nontest = text.split("\n#[cfg(test)]")[0]
            if re.search(r"(?<![:\w])thread_local!", "\n".join(ln for ln in nontest.splitlines() if not ln.strip().startswith("//"))):
                tls.append(os.path.relpath(path, src))
            # split into top-level-in-impl functions: "    fn name(" ... next "    fn " or "\n}\n"
            parts = re.split(r"\n(?=    (?:pub )?(?:unsafe )?fn )", text)
            for part in parts:
                m = re.match(r"    (?:pub )?(?:unsafe )?fn (\w+)", part)
                if not m or "#[cfg(test)]" in part[:200]:
                    continue
                name = m.group(1)
                body = part.split("\n#[cfg(test)]")[0]
                seamed = "use crate::verif_seam::" in body
                code = "\n".join(ln for ln in body.splitlines() if not ln.strip().startswith("//"))
                if seamed and re.search(r"\bstd::(sync|thread)::", code):
                    bypass.append("%s: fn %s" % (os.path.relpath(path, src), name))
                if not seamed and re.search(r"\b(spawn|scope)\s*\(", code) and re.search(r"\bthread\b|\bspawn\b", code) \
                        and "/tests" not in path:
                    if re.search(r"\b(thread::)?(spawn|scope)\s*\(\s*(move\s*)?\|", code):
                        unseamed.append("%s: fn %s" % (os.path.relpath(path, src), name))
    return {"std_paths_inside_seamed_functions": sorted(set(bypass)), "thread_creation_outside_the_seam": sorted(set(unseamed)),
            "thread_local_storage_in_library_code": sorted(set(tls))}


def cpu_buckets(c):
    """Executions per simulated CPU count: exact for 1..=16 and the injected query failure, ranges above."""
    out = {}
    for k, v in c.items():
        if not k.startswith("cpu/"):
            continue
        t = k[4:]
        if t == "err":
            key = "query_failed"
        else:
            n = int(t)
            key = "%02d" % n if n <= 16 else "17-32" if n <= 32 else "33-64" if n <= 64 else "65-256" if n <= 256 else "257+"
        out[key] = out.get(key, 0) + v
    return dict(sorted(out.items()))


def sched_phase(pid, tier, runs=None):
    """Run the shuttle-engine lane of a property. Returns a dict with everything the evidence needs."""
    seed = verif_seed()
    ws = workspace()
    binary = build_sched(ws)
    runs = runs or PLAN[pid][tier]
    if os.environ.get("VERIF_RUNS"):
        runs = int(os.environ["VERIF_RUNS"])
    njobs = jobs()
    workdir = os.path.join(LOGS, "%s-%s" % (pid, tier))
    if os.path.exists(workdir):
        shutil.rmtree(workdir)
    log("%s %s: VERIF_SEED=%d runs=%d jobs=%d" % (pid, tier, seed, runs, njobs))
    t1 = time.time()
    outputs, crashes = run_workers(binary, pid, tier, runs, seed, workdir, njobs)
    run_wall = time.time() - t1
    agg, violations, _ = aggregate(outputs)
    for c in crashes:
        # a run that kills the process: dump its scenario as the replay file
        path = os.path.join(REPLAYS, "%s-%d-%d-crash.json" % (pid, seed, c["run_index"]))
        subprocess.run([binary, "dump", "--prop", pid, "--tier", tier, "--seed", str(seed), "--run", str(c["run_index"]),
                        "--out", path], env=base_env(), stdout=subprocess.DEVNULL, stderr=subprocess.DEVNULL)
        violations.append({"signature": "process_killed", "class": "process_killed", "op": "?",
                           "detail": "the worker process died (rc=%s) while executing this run" % c["rc"],
                           "replay": path, "run_index": c["run_index"]})
    # determinism spot check: the first runs of shard 0 again, in a fresh process
    spot = min(64, runs)
    spot_dir = os.path.join(workdir, "spot")
    skip = [str(c["run_index"]) for c in crashes if c["run_index"] < spot]
    run_workers(binary, pid, tier, spot, seed, spot_dir, 1, ["--skip", ",".join(skip)] if skip else None)
    a = dict(zip(*[iter(read_words(os.path.join(spot_dir, "shard00.json.runs")))] * 2))
    b = {}
    for k in range(njobs):
        w = read_words(os.path.join(workdir, "shard%02d.json.runs" % k))
        b.update(dict(zip(*[iter(w)] * 2)))
    mismatch = [i for i, d in a.items() if i in b and b[i] != d]
    if mismatch and violations:
        # results that depend on what the process did before are what a violation caused by state surviving a
        # call looks like: triage decides (history replay)
        log("NOTE runs %s gave different digests in a second process; violations were reported, triage decides" % mismatch[:8])
    elif mismatch:
        log("HARNESS-ERROR simulator nondeterminism: runs %s gave different digests in a second process" % mismatch[:8])
        raise SystemExit(2)
    cases, cases_total = distinct(binary, [os.path.join(workdir, "shard%02d.json.cases" % k) for k in range(njobs)])
    scheds, scheds_total = distinct(binary, [os.path.join(workdir, "shard%02d.json.scheds" % k) for k in range(njobs)])
    new, known_hits, herr = triage(binary, pid, violations, seed, tier, njobs, runs)
    sr = seam_report()
    for k, v in sr.items():
        if v:
            how = "redirected to the seam in a patched copy of the sources for this run" if k.startswith("std_paths") \
                else "all simulated threads of an execution share one OS thread and therefore one instance of a std thread-local: " \
                     "a violation reported by a shuttle lane for code that keeps per-thread state across a synchronisation " \
                     "operation must be confirmed with the Miri lanes, which run real threads" if k.startswith("thread_local") \
                else "not scheduled by the shuttle lanes; the Miri lanes schedule real threads"
            log("NOTE %s: %s (%s)" % (k.replace("_", " "), "; ".join(v), how))
    # the digest files are large in the thorough tier (8 bytes per run / case / schedule): drop them
    for k in range(njobs):
        for ext in (".cases", ".scheds", ".runs"):
            try:
                os.remove(os.path.join(workdir, "shard%02d.json%s" % (k, ext)))
            except OSError:
                pass
    shutil.rmtree(spot_dir, ignore_errors=True)
    c = agg["counters"]
    coverage = {
        "evaluations": agg["executions"] + agg["sequential_checks"],
        "distinct_nontrivial": cases,
        "rule": RULES.get(pid, ""),
        "samples": agg["samples"],
        "exhaustive": False,
        "runs": agg["runs"],
        "scheduled_executions": agg["executions"],
        "sequential_op_checks": agg["sequential_checks"],
        "nontrivial_cases_total": cases_total,
        "simulated_steps": agg["steps"],
        "simulated_time_note": "graaf reads no clock; simulated time is the number of scheduling decisions",
        "choice_points": agg["choice_points"],
        "context_switches": agg["switches"],
        "max_steps_one_execution": agg["max_steps_one_execution"],
        "max_workers_one_execution": agg["max_workers_one_execution"],
        "distinct_schedules": scheds,
        "distinct_schedules_measure": "distinct digests of the decision list (chosen task id per scheduling point) "
                                      "among executions with >= 2 workers",
        "multiworker_executions": scheds_total,
        "runs_per_hour": int(agg["runs"] / run_wall * 3600) if run_wall > 0 else 0,
        "seeds_per_hour": int(agg["runs"] / run_wall * 3600) if run_wall > 0 else 0,
        "executions_per_hour": int(agg["executions"] / run_wall * 3600) if run_wall > 0 else 0,
        "faults_injected": {k[6:]: v for k, v in sorted(c.items()) if k.startswith("fault/")},
        "fault_kinds_not_applicable": "message loss/duplication/reordering, partitions, torn/short/lost writes, disk "
                                      "full, clock skew/jumps, crash-restart: graaf has no network, disk, clock or "
                                      "durable state for them to act on",
        "cpu_counts_covered": cpu_buckets(c),
        "relation_classes": {k[4:]: v for k, v in sorted(c.items()) if k.startswith("rel/")},
        "schedulers": {k[6:]: v for k, v in sorted(c.items()) if k.startswith("sched/")},
        "operations": {k[3:]: v for k, v in sorted(c.items()) if k.startswith("op/")},
        "reach_probes": {k[6:]: v for k, v in sorted(c.items()) if k.startswith("probe/")},
        "other_counters": {k: v for k, v in sorted(c.items())
                           if not k.startswith(("fault/", "cpu/", "rel/", "sched/", "op/", "probe/"))},
        "seam_report": sr,
        "determinism_spotcheck_runs": len(a),
        "worker_processes": njobs,
        "components": COMPONENTS,
        "repo": repo_state(),
        "known_findings_hit": [k["signature"] for k in known_hits],
        "new_violation_signatures": [k["signature"] for k in new],
    }
    return {"seed": seed, "coverage": coverage, "new": new, "known": known_hits, "herr": herr, "agg": agg,
            "cases": cases, "scheds": scheds}


def report(pid, new, known_hits):
    for k in known_hits:
        log("KNOWN-FINDING: property=%s %s (%s; %d occurrences; replay=%s)" % (pid, k["signature"], k.get("what", ""), k["count"], k["replay"]))
    for v in new:
        log("VIOLATION property=%s replay=%s" % (pid, v["replay"]))
        log("  signature: %s (%d occurrences)" % (v["signature"], v["count"]))
        log("  detail: %s" % v["detail"])


# properties whose threaded operations are additionally judged under Miri (data races on the
# raw-pointer-shared vectors and Relaxed-only anomalies are invisible to shuttle)
MIRI_JUDGED = {"C15": ("thorough",), "C17": ("quick", "thorough")}


def run_sched_property(pid, tier):
    t0 = time.time()
    r = sched_phase(pid, tier)
    if tier in MIRI_JUDGED.get(pid, ()):
        import memdriver
        stats, viol = memdriver.judge_lane(pid, tier, r["seed"], os.path.join(LOGS, "%s-%s-miri" % (pid, tier)), jobs())
        r["coverage"]["miri_lane"] = stats
        r["coverage"]["evaluations"] += stats["judged_case_executions"]
        known = [k for k in load_known() if k.get("property") == pid and k.get("status") == "known"]
        by_sig = {}
        for v in viol:
            if v["case"] is None:
                sig, path = "%s %s miri" % (v["class"], v["op"]), None
            else:
                path, sig = memdriver.write_judge_replay(pid, v)
            e = by_sig.setdefault(sig, {"signature": sig, "count": 0, "replay": path, "detail": v["detail"][:600]})
            e["count"] += 1
        for sig, e in by_sig.items():
            hit = next((k for k in known if k.get("signature") == sig), None)
            if hit:
                e["what"] = hit.get("what", "")
                r["known"].append(e)
            else:
                r["new"].append(e)
        r["coverage"]["new_violation_signatures"] = [k["signature"] for k in r["new"]]
    wall = time.time() - t0
    write_evidence(pid, tier, r["seed"], "exploration", r["coverage"], ASSUMPTIONS, wall, len(r["new"]))
    report(pid, r["new"], r["known"])
    log("%s %s: %d runs, %d executions, %d distinct non-trivial cases, %d distinct schedules, %d new violation "
        "signature(s), %d known; %.1fs" % (pid, tier, r["agg"]["runs"], r["agg"]["executions"], r["cases"], r["scheds"],
                                            len(r["new"]), len(r["known"]), wall))
    if r["herr"]:
        return 2
    return 1 if r["new"] else 0


def cmd_setup():
    ws = workspace()
    build_sched(ws)
    import memdriver
    memdriver.build(ws)
    return 0


def cmd_replay(path):
    try:
        rf = json.load(open(path))
        prop = rf.get("property", "?")
    except Exception as e:  # noqa: BLE001
        log("HARNESS-ERROR cannot read replay file: %s" % e)
        return 2
    if rf.get("engine") == "simmem":
        import memdriver
        return memdriver.replay_mem(path, rf)
    if rf.get("engine") == "simmem-judge":
        import memdriver
        return memdriver.replay_judge(path, rf)
    ws = workspace()
    binary = build_sched(ws, quiet=True)
    if rf.get("kind") == "history":
        tmp = tempfile.mkdtemp(prefix="verif_hist_")
        try:
            got = run_history(binary, rf, tmp)
        finally:
            shutil.rmtree(tmp, ignore_errors=True)
        want = rf.get("violation", {}).get("signature")
        if got is None:
            log("REPRODUCED property=%s (the worker process died)" % prop)
            log("VIOLATION property=%s replay=%s" % (prop, path))
            return 1
        if want in got:
            log("REPRODUCED property=%s signature=\"%s\" (runs %d..%d of shard %d/%d)" % (prop, want, rf["from"], rf["upto"], rf["shard"], rf["shards"]))
            log("VIOLATION property=%s replay=%s" % (prop, path))
            return 1
        log("NOT-REPRODUCED property=%s signature=\"%s\"" % (prop, want))
        return 0
    r = subprocess.run([binary, "replay", path], env=base_env(), stdout=subprocess.PIPE, stderr=subprocess.DEVNULL, text=True)
    sys.stdout.write(r.stdout)
    if r.returncode < 0:
        log("REPRODUCED property=%s (process killed by signal %d)" % (prop, -r.returncode))
        log("VIOLATION property=%s replay=%s" % (prop, path))
        return 1
    if r.returncode == 1:
        log("VIOLATION property=%s replay=%s" % (prop, path))
        return 1
    return r.returncode


def main(argv):
    if not argv:
        print(__doc__)
        return 2
    if argv[0] == "setup":
        return cmd_setup()
    if argv[0] == "replay" and len(argv) == 2:
        return cmd_replay(argv[1])
    if argv[0] == "selftest":
        import selftest
        return selftest.main(argv[1:])
    if len(argv) == 2 and argv[1] in ("quick", "thorough"):
        pid, tier = argv
        if os.environ.get("VERIF_TIER") in ("quick", "thorough") and False:
            tier = os.environ["VERIF_TIER"]
        if pid == "C13":
            import c13
            return c13.run(tier)
        if pid in PLAN:
            return run_sched_property(pid, tier)
        log("HARNESS-ERROR no check registered for %s" % pid)
        return 2
    print("usage: ./check setup | <id> quick|thorough | replay <file> | selftest [...]")
    return 2
